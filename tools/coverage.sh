#!/bin/bash
# Which lines of src/hypercorn does no quick tier reach?  (review aid, not a registered check)
# usage: tools/coverage.sh [ID ...]   -> .work/coverage/report.txt
set -u
V=$(cd "$(dirname "$0")/.." && pwd)
out=$V/.work/coverage; rm -rf "$out"; mkdir -p "$out"
cat > "$out/rc" <<EOR
[run]
concurrency = multiprocessing
parallel = True
sigterm = True
branch = True
source = /repo/src/hypercorn
data_file = $out/.coverage
EOR
ids=${*:-C01 C02 C03 C04 C05 C06 C07 C08 C09 C10 C11 C12 C13 C14 C15 C16 C17 C18 C19 C20}
export PYTHONHASHSEED=0 VERIF_REPO=/repo VERIF_JOBS=${VERIF_JOBS:-4}
cd "$V"
for c in $ids; do
  /venv/bin/python -m coverage run --rcfile="$out/rc" ./check "$c" --tier quick 2>&1 | grep -v KNOWN | tail -1
done
cd "$out" && /venv/bin/python -m coverage combine --rcfile="$out/rc" >/dev/null 2>&1
/venv/bin/python -m coverage report --rcfile="$out/rc" -m > "$out/report.txt" 2>&1
tail -1 "$out/report.txt"
