#!/venv/bin/python
"""Summarise the mechanical mutation sweep (.work/mutscan/results.jsonl, tools/mutscan.py) into
seeded/MUTSCAN.json, with the manual classification of every survivor (seeded/mutscan_notes.json)."""
import json, os, collections
root = os.path.dirname(os.path.dirname(os.path.abspath(__file__)))
rs = [json.loads(l) for l in open(os.path.join(root, ".work", "mutscan", "results.jsonl"))]
_last = {}
for r in rs:  # a site judged again (tools/mutscan.py --redo) counts with its latest result
    _last[(r["file"], tuple(r["site"]))] = r
rs = list(_last.values())
notes = json.load(open(os.path.join(root, "seeded", "mutscan_notes.json")))
c = collections.Counter(r["status"] for r in rs)
by = collections.Counter(r.get("by") for r in rs if r["status"] == "detected")
surv = []
for r in rs:
    if r["status"] != "survived":
        continue
    key = f"{r['file']}:{r['line']}:{r['op']}"
    cls, why = notes.get(key, ["UNCLASSIFIED", ""])
    surv.append({"file": r["file"], "line": r["line"], "operator": r["op"], "change": r["desc"],
                 "checks_tried": [t[0] for t in r.get("tried", [])], "classification": cls, "why": why})
timeouts = []
for r in rs:
    if r["status"] == "timeout":
        key = f"{r['file']}:{r['line']}:{r['op']}"
        cls, why = notes.get(key, ["UNCLASSIFIED", ""])
        timeouts.append({"file": r["file"], "line": r["line"], "operator": r["op"],
                         "change": r["desc"], "checks_tried": r.get("tried", []),
                         "classification": cls, "why": why})
closed = []
for r in rs:
    key = f"{r['file']}:{r['line']}:{r['op']}"
    if r["status"] == "detected" and notes.get(key, [""])[0] == "gap":
        closed.append({"file": r["file"], "line": r["line"], "operator": r["op"],
                       "change": r["desc"], "now_detected_by": r["by"], "what_was_missing": notes[key][1]})
out = {
    "base": sorted({r.get("base") for r in rs if r.get("base")}),
    "sampled": len(rs), "of_sites": 1985,
    "does_not_import": c["does_not_import"], "killed_by_suite": c["killed_by_suite"],
    "survived_suite": c["detected"] + c["survived"],
    "detected_by_quick_tiers": c["detected"], "detected_by_check": dict(sorted(by.items())),
    "survived_both": c["survived"],
    "survivor_classes": dict(collections.Counter(s["classification"] for s in surv)),
    "gaps_closed": closed,
    "checks_ran_out_of_time": timeouts,
    "survivors": surv,
    "detected": [{"file": r["file"], "line": r["line"], "operator": r["op"], "change": r["desc"],
                  "by": r["by"], "first": (r.get("detail") or [""])[0][:160]}
                 for r in rs if r["status"] == "detected"],
}
json.dump(out, open(os.path.join(root, "seeded", "MUTSCAN.json"), "w"), indent=1)
print({k: v for k, v in out.items() if k not in ("survivors", "detected", "gaps_closed", "checks_ran_out_of_time")}, len(closed), "gaps closed")
