#!/venv/bin/python
"""usage: tools/sens.py <ID>[,ID..] <file> <old> <new> [--tier quick] : mutate a scratch worktree, run checks against it."""
import os, subprocess, sys
ids, file, old, new = sys.argv[1:5]
d = f"/tmp/sens-{os.getpid()}"
subprocess.check_call(["git", "-C", "/repo", "worktree", "add", "-q", "--detach", d, "HEAD"])
try:
    p = os.path.join(d, file)
    s = open(p).read()
    if old not in s:
        print("OLD TEXT NOT FOUND"); sys.exit(2)
    open(p, "w").write(s.replace(old, new, 1))
    r = subprocess.run([sys.executable, "-c", "import sys; sys.path.insert(0, sys.argv[1]); import hypercorn.protocol, hypercorn.asyncio, hypercorn.trio, hypercorn.__main__", d + "/src"], capture_output=True, text=True)
    if r.returncode:
        print("MUTANT DOES NOT IMPORT", r.stderr[-300:]); sys.exit(2)
    for id in ids.split(","):
        env = dict(os.environ, VERIF_REPO=d)
        r = subprocess.run(["./check", id, "--tier", "quick"], capture_output=True, text=True, env=env, cwd="/verif")
        lines = [l for l in (r.stdout + r.stderr).splitlines() if l.startswith(("VIOLATION", "  part=", "HARNESS")) or " tier=" in l]
        print(f"[{id}] rc={r.returncode}"); print("\n".join(lines[:7]))
finally:
    subprocess.call(["git", "-C", "/repo", "worktree", "remove", "--force", d])
