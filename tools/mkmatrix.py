#!/venv/bin/python
"""Print the markdown table of seeded changes and which check caught them (for DESIGN.md section 7)."""
import json, os, re, sys
root = os.path.join(os.path.dirname(os.path.dirname(os.path.abspath(__file__))), "seeded")
rows = []
for name in sorted(os.listdir(root)):
    mp = os.path.join(root, name, "meta.json")
    if not os.path.exists(mp):
        continue
    m = json.load(open(mp))
    r = m.get("reconfirmed", {})
    summ = re.sub(r"\s+", " ", m.get("summary", "")).strip()
    summ = re.sub(r"`", "", summ)
    if len(summ) > 230:
        summ = summ[:227].rsplit(" ", 1)[0] + " …"
    v = (r.get("check_quick_violations") or [""])[0]
    mm = re.search(r"replays/(C\d+)/([a-z0-9_]+)-([a-z0-9_]+)-[0-9a-f]+", v)
    caught = f"{mm.group(1)} {mm.group(2)}: `{mm.group(3)}`" if mm else ("—" if not r.get("detected_quick") else "yes")
    if not r.get("detected_quick") and r.get("detected_by_other"):
        o = r["detected_by_other"]
        v2 = (r.get("also", {}).get(o, {}).get("violations") or [""])[0]
        m2 = re.search(r"replays/(C\d+)/([a-z0-9_]+)-([a-z0-9_]+)-[0-9a-f]+", v2)
        caught = (f"{m2.group(1)} {m2.group(2)}: `{m2.group(3)}`" if m2 else o) + " (another property's check; see note in meta.json)"
    files = ", ".join(os.path.basename(f) for f in m.get("files", []))
    rows.append(f"| {name} | {files} | {summ} | {caught} |")
print("| seeded change | file | what it does | caught by (quick tier: part, oracle) |")
print("|---|---|---|---|")
print("\n".join(rows))
print(f"\n{len(rows)} changes.", file=sys.stderr)
