#!/venv/bin/python
"""Re-confirm every stored seeded change against the current /repo HEAD and record which check catches it.

usage: tools/reconfirm.py [name ...]      (default: every directory under seeded/)

For each seeded/<ID>-<mN>/ : scratch worktree of /repo HEAD under /tmp (removed afterwards);
  1. demo_test.py passes on the clean tree,
  2. patch applies, the repository's test-suite still passes with it,
  3. demo_test.py fails with it,
  4. ./check <ID> --tier quick (VERIF_REPO=<scratch>) reports a VIOLATION  -> "detected".
The outcome is written to seeded/<name>/meta.json["reconfirmed"] and summarised in seeded/MATRIX.json.
Nothing here is a registered check; it is the sensitivity experiment behind DESIGN.md section 7.
"""
import json, os, subprocess, sys, concurrent.futures as cf

VERIF = os.path.dirname(os.path.dirname(os.path.abspath(__file__)))
REPO = "/repo"
SUITE = ["/venv/bin/python", "-m", "pytest", "-q", "-p", "no:cacheprovider", "--timeout=900",
         "--deselect", "tests/asyncio/test_sanity.py::test_http2_websocket",
         "--deselect", "tests/trio/test_sanity.py::test_http2_websocket"]


def sh(cmd, cwd=None, env=None, timeout=1800):
    try:
        p = subprocess.run(cmd, cwd=cwd, env=env, capture_output=True, text=True, timeout=timeout)
        return p.returncode, p.stdout + p.stderr
    except subprocess.TimeoutExpired as e:
        return 124, "TIMEOUT " + str(e)


def one(name):
    sd = os.path.join(VERIF, "seeded", name)
    pid = name.split("-")[0]
    d = "/tmp/reconf-%s-%d" % (name, os.getpid())
    head = sh(["git", "-C", REPO, "rev-parse", "--short", "HEAD"])[1].strip()
    res = {"name": name, "property": pid, "base": head}
    rc, out = sh(["git", "-C", REPO, "worktree", "add", "-q", "--detach", d, "HEAD"])
    if rc:
        res["error"] = "worktree: " + out[-200:]
        return res
    try:
        env = dict(os.environ, PYTHONPATH=d + "/src", PYTHONHASHSEED="0")
        demo = ["/venv/bin/python", "-m", "pytest", "-q", "-p", "no:cacheprovider", "-x", sd + "/demo_test.py"]
        rc, out = sh(demo, cwd=d, env=env, timeout=600)
        res["demo_on_clean_rc"] = rc
        rc, out = sh(["git", "-C", d, "apply", sd + "/patch.diff"])
        res["applies"] = rc == 0
        if rc:
            return res
        for attempt in range(8):  # tests/e2e binds a fixed TCP port: parallel suites collide there
            rc, out = sh(SUITE, cwd=d, env=env, timeout=1200)
            res["suite_with_patch"] = out.strip().splitlines()[-1] if out.strip() else ""
            failed = [l for l in out.splitlines() if l.startswith("FAILED")]
            if "193 passed" in res["suite_with_patch"] or not failed \
                    or not all("tests/e2e/" in l for l in failed):
                break
            import time as _t
            _t.sleep(0.9 * (attempt + 1))
            res.setdefault("suite_retries", []).append(
                [l for l in out.splitlines() if l.startswith("FAILED")][:3])
        rc, out = sh(demo, cwd=d, env=env, timeout=600)
        res["demo_with_patch_rc"] = rc
        env2 = dict(os.environ, VERIF_REPO=d, VERIF_JOBS=os.environ.get("RECONF_JOBS", "4"))
        env2.pop("PYTHONPATH", None)
        rc, out = sh([VERIF + "/check", pid, "--tier", "quick"], cwd=VERIF, env=env2, timeout=3000)
        viol = [l for l in out.splitlines() if l.startswith("VIOLATION")]
        res["check_quick_rc"] = rc
        res["check_quick_violations"] = viol[:4]
        res["check_quick_first_detail"] = [l.strip() for l in out.splitlines() if "kind=" in l][:3]
        res["detected_quick"] = rc == 1 and bool(viol)
        # detection should not hang on one lucky seed: the other seeds asked for are recorded too
        per_seed = {os.environ.get("VERIF_SEED", "1"): res["detected_quick"]}
        for seedv in [x for x in os.environ.get("RECONF_SEEDS", "").split(",") if x]:
            if seedv in per_seed:
                continue
            rc3, out3 = sh([VERIF + "/check", pid, "--tier", "quick"], cwd=VERIF,
                           env=dict(env2, VERIF_SEED=seedv), timeout=3000)
            per_seed[seedv] = rc3 == 1 and any(l.startswith("VIOLATION")
                                               for l in out3.splitlines())
        res["detected_by_seed"] = per_seed
        # a change may break its property through a unit another property's check drives
        # (meta.json["also"]): record those outcomes too
        try:
            also = json.load(open(os.path.join(sd, "meta.json"))).get("also", [])
        except Exception:
            also = []
        for other in also:
            rc2, out2 = sh([VERIF + "/check", other, "--tier", "quick"], cwd=VERIF, env=env2,
                           timeout=3000)
            v2 = [l for l in out2.splitlines() if l.startswith("VIOLATION")]
            res.setdefault("also", {})[other] = {"rc": rc2, "violations": v2[:3]}
            if rc2 == 1 and v2 and not res["detected_quick"]:
                res["detected_by_other"] = other
    finally:
        sh(["git", "-C", REPO, "worktree", "remove", "--force", d])
    res["valid_seed"] = (res.get("demo_on_clean_rc") == 0 and res.get("applies")
                         and "193 passed" in res.get("suite_with_patch", "") and res.get("demo_with_patch_rc") not in (0, None))
    mp = os.path.join(sd, "meta.json")
    try:
        meta = json.load(open(mp))
    except Exception:
        meta = {}
    meta["reconfirmed"] = res
    json.dump(meta, open(mp, "w"), indent=1)
    return res


def main():
    names = sys.argv[1:] or sorted(n for n in os.listdir(os.path.join(VERIF, "seeded"))
                                   if os.path.isdir(os.path.join(VERIF, "seeded", n)))
    rows = []
    with cf.ThreadPoolExecutor(max_workers=int(os.environ.get("RECONF_PAR", "4"))) as ex:
        for r in ex.map(one, names):
            rows.append(r)
            print("%-9s base=%s clean=%s applies=%s suite=%r mutated=%s valid=%s detected=%s %s" % (
                r["name"], r.get("base"), r.get("demo_on_clean_rc"), r.get("applies"), r.get("suite_with_patch", "")[:22],
                r.get("demo_with_patch_rc"), str(r.get("valid_seed")) + " seeds=" + "".join(
                    "+" if v else "-" for v in (r.get("detected_by_seed") or {}).values()),
            r.get("detected_quick") or r.get("detected_by_other"),
                (r.get("check_quick_violations") or [""])[0][:90]), flush=True)
    mpath = os.path.join(VERIF, "seeded", "MATRIX.json")
    old = {}
    if os.path.exists(mpath):
        old = {r["name"]: r for r in json.load(open(mpath))}
    for r in rows:
        old[r["name"]] = r
    json.dump([old[k] for k in sorted(old)], open(mpath, "w"), indent=1)


if __name__ == "__main__":
    main()
