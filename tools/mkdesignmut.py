#!/venv/bin/python
"""Rewrite the 'Mechanical mutants' paragraph of DESIGN.md (between its markers) from
seeded/MUTSCAN.json."""
import json, os, collections, textwrap
root = os.path.dirname(os.path.dirname(os.path.abspath(__file__)))
m = json.load(open(os.path.join(root, "seeded", "MUTSCAN.json")))
cls = m["survivor_classes"]
gaps = m["gaps_closed"]
nchecks = sum(1 for v in m["detected_by_check"].values() if v)
t = m.get("checks_ran_out_of_time", [])
para = f"""**Mechanical mutants.** `tools/mutscan.py` applies classical mutation
operators (comparison / boolean swaps, dropped `not`, negated condition,
small-constant shifts, `True`/`False`, deleted statement, `break`/`continue`)
one at a time to `src/hypercorn/**` ({m['of_sites']} sites outside HTTP/3, QUIC and
statsd), keeps those the repository's suite does not kill, and runs the quick
tiers of the checks mapped to the mutated file, likeliest owner first. The
sweep and its outcome are in `seeded/MUTSCAN.json` (`tools/mkmutscan.py`):
{m['sampled']} of the sites were judged ({m['does_not_import']} mutants do not import,
{m['killed_by_suite']} are killed by the suite); of the {m['survived_suite']} the suite
lets through the quick tiers catch {m['detected_by_quick_tiers']} ({nchecks} of the 20
checks have at least one). Every survivor was read and classified
(`seeded/mutscan_notes.json`): {cls.get('equivalent', 0)} are equivalent (an attribute
never read, a version guard, a statement a later repair made redundant ...),
{cls.get('outside', 0)} touch what no listed property speaks about (the reloader, log
and warning text, defaults the checks override, TLS sockets, the multi-process
supervisor, application loading, server push, the advisory priority tree), and
{len(gaps)} were **gaps, now closed** - each re-judged with `--redo` and listed
under `gaps_closed` with the check that catches it now:"""
lines = []
for g in gaps:
    lines.append(f"  * `{g['file']}:{g['line']}` ({g['change'][:60].strip()}) - now {g['now_detected_by']}")
tail = f"""
{len(t)} mutants made every case run into the per-case time limit (a reader that
spins on a dead connection); the sweep gives a check seven minutes and moved on.
Left to finish, C07 reports them as `spin` / `non_yielding_loop` (4 to 10
minutes on the loaded machine); such violations are no longer shrunk.
Operational lessons built into the tool: scratch worktrees are re-created
after a `/repo` fix or a check extension that exposes a defect of the base
(else every later mutant is "detected"); the suite's e2e test binds a fixed
TCP port, so it runs on its own under a lock; results are written in order of
completion; a hung suite is killed; and a check that exits 2 on a mutant is a
finding about the check (three such cases led to `exception_from_server_code`,
§6)."""
text = para + "\n" + "\n".join(lines) + "\n" + tail.strip("\n") + "\n"
p = os.path.join(root, "DESIGN.md")
s = open(p).read()
b, e = "<!-- MUTSCAN-BEGIN -->\n", "<!-- MUTSCAN-END -->\n"
i, j = s.index(b) + len(b), s.index(e)
open(p, "w").write(s[:i] + text + s[j:])
print(text[:600])
