#!/bin/bash
# run every registered check (quick tier) and print one line each
tier=${1:-quick}
for id in $(/venv/bin/python -c "import json;print(' '.join(c['property_id'] for c in json.load(open('/verif/MANIFEST.json'))['checks']))"); do
  out=$(./check $id --tier $tier 2>&1); rc=$?
  echo "rc=$rc $(echo "$out" | grep -c '^KNOWN-FINDING') known | $(echo "$out" | tail -1)"
  echo "$out" | grep -A2 "^VIOLATION\|HARNESS" | head -8
done
