#!/bin/bash
# usage: tools/seedrun.sh <patch.diff> <ID>[,<ID>...] [tier]  -- run checks against a scratch worktree with the patch applied
patch=$1; ids=$2; tier=${3:-quick}
d=/tmp/seedrun-$$
git -C /repo worktree add -q --detach $d HEAD || exit 2
if ! git -C $d apply $patch; then echo "PATCH DOES NOT APPLY"; git -C /repo worktree remove --force $d; exit 2; fi
for id in ${ids//,/ }; do
  echo "[$id]"; VERIF_REPO=$d ./check $id --tier $tier 2>&1 | grep -E "^VIOLATION|^  part=|tier=|HARNESS" | head -6
done
git -C /repo worktree remove --force $d
