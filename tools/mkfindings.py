#!/venv/bin/python
"""Print the DESIGN.md 5.1 table from known_findings.json (one row per root cause / commit)."""
import json, os, re
root = os.path.dirname(os.path.dirname(os.path.abspath(__file__)))
es = json.load(open(os.path.join(root, "known_findings.json")))["findings"]
order = sorted(es, key=lambda e: (e["property"], int(e["id"].split("-")[1])))
rows, seen = [], {}
for e in order:
    key = e.get("commit") or e["id"]
    title = re.sub(r"\s+", " ", e["title"]).replace("|", "/")
    if key in seen and e["status"] == "fixed":
        rows[seen[key]][0] += " / " + e["id"]
        continue
    seen[key] = len(rows)
    rows.append([e["id"], "F" if e["status"] == "fixed" else "K", e.get("commit", "—") or "—", title])
print("| id | | commit | what fails on the unchanged tree |")
print("|----|--|--------|----------------------------------|")
for r in rows:
    print(f"| {r[0]} | {r[1]} | {r[2]} | {r[3]} |")
