#!/bin/bash
# usage: tools/sens.sh <ID> <python-expr-file-or-sed-script> : apply a sed script to a scratch worktree and run the quick tier
# tools/sens.sh C01 's/foo/bar/' src/hypercorn/x.py
id=$1; script=$2; file=$3
d=/tmp/sens-$$
git -C /repo worktree add -q --detach $d HEAD || exit 2
sed -i -E "$script" $d/$file
if git -C $d diff --quiet; then echo "NO CHANGE MADE"; fi
git -C $d diff | grep '^[-+]' | grep -v '^+++\|^---' | head -6
VERIF_REPO=$d ./check $id --tier quick 2>&1 | grep -E "^VIOLATION|kind=|tier=|HARNESS" | head -8
git -C /repo worktree remove --force $d
