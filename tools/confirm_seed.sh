#!/bin/bash
# usage: tools/confirm_seed.sh <ID> <mN> : independently confirm a seeded mutation (suite passes with it,
# demo passes on the clean tree and fails with it) and store it under seeded/<ID>-<mN>/
id=$1; m=$2; src=${SEEDOUT:-/tmp/seedout}/$id/$m
d=/tmp/confirm-$id-$m-$$
out=/verif/seeded/$id-$m
git -C /repo worktree add -q --detach $d HEAD || exit 2
export PYTHONPATH=$d/src
run_demo() { (cd $d && timeout 300 /venv/bin/python -m pytest -q -p no:cacheprovider -x $src/demo_test.py >/tmp/confirm-$id-$m.log 2>&1; echo $?); }
clean=$(run_demo)
if ! git -C $d apply $src/patch.diff; then echo "$id $m: PATCH DOES NOT APPLY"; git -C /repo worktree remove --force $d; exit 1; fi
suite=$(cd $d && timeout 900 /venv/bin/python -m pytest -q -p no:cacheprovider --timeout=900 --deselect tests/asyncio/test_sanity.py::test_http2_websocket --deselect tests/trio/test_sanity.py::test_http2_websocket 2>&1 | tail -1)
mut=$(run_demo)
git -C /repo worktree remove --force $d
echo "$id $m: demo_clean_rc=$clean suite='$suite' demo_mutated_rc=$mut"
if [ "$clean" = "0" ] && [ "$mut" != "0" ] && echo "$suite" | grep -q "193 passed" ; then
  mkdir -p $out && cp $src/patch.diff $src/demo_test.py $out/ 
  /venv/bin/python - "$src/meta.json" "$out/meta.json" "$suite" "$clean" "$mut" <<'PY'
import json, sys
src, dst, suite, clean, mut = sys.argv[1:6]
try: meta = json.load(open(src))
except Exception: meta = {}
meta["confirmed"] = {"base": "HEAD of /repo at confirmation time", "suite_with_patch": suite,
  "demo_on_clean_rc": int(clean), "demo_with_patch_rc": int(mut),
  "how": "tools/confirm_seed.sh: scratch worktree, pytest suite with patch, demo before/after"}
json.dump(meta, open(dst, "w"), indent=1)
PY
  echo "  stored in $out"
else
  echo "  NOT KEPT"
fi
