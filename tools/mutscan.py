#!/venv/bin/python
"""Mechanical mutation sweep (sensitivity experiment, not a registered check).

Classical mutation operators (comparison / boolean operator swaps, dropped `not`, negated
condition, small-constant shifts, True/False flips, deleted statement, dropped `await`-ed call)
are applied one at a time to src/hypercorn/** in scratch worktrees of /repo HEAD under /tmp.
For each sampled mutant:
   1. the package must still import and the repository's suite must still pass (otherwise the
      mutant is "killed_by_suite" - outside the class the checks exist for);
   2. the quick tiers of the checks mapped to the mutated file are run (VERIF_REPO=<scratch>),
      most likely owner first, stopping at the first VIOLATION.
Survivors of both are listed for manual classification (equivalent / outside every property /
gap).  Results: .work/mutscan/results.jsonl (resumable); summary: seeded/MUTSCAN.json.

usage: tools/mutscan.py [--n 200] [--seed 1] [--par 4] [--files glob,...] [--list]
"""
import argparse, signal, ast, copy, fnmatch, hashlib, json, os, random, subprocess, sys, threading
import concurrent.futures as cf

VERIF = os.path.dirname(os.path.dirname(os.path.abspath(__file__)))
REPO = "/repo"
SRC = "src/hypercorn"
SUITE = ["/venv/bin/python", "-m", "pytest", "-q", "-x", "-p", "no:cacheprovider", "--timeout=300",
         "--deselect", "tests/asyncio/test_sanity.py::test_http2_websocket",
         "--deselect", "tests/trio/test_sanity.py::test_http2_websocket"]

CHECKS = [
    ("protocol/h11.py", "C06 C01 C02 C13 C07 C03 C04 C18 C05 C08 C11 C12 C16"),
    ("protocol/h2.py", "C09 C01 C02 C08 C07 C18 C04 C03 C05 C13 C12 C11 C10 C15 C16"),
    ("protocol/http_stream.py", "C02 C01 C03 C05 C12 C06 C04 C16"),
    ("protocol/ws_stream.py", "C10 C11 C12 C03 C04 C16 C07"),
    ("protocol/__init__.py", "C13 C07 C04"),
    ("protocol/events.py", "C01 C02"),
    ("asyncio/tcp_server.py", "C07 C08 C03 C01 C02 C13 C15 C16 C04"),
    ("trio/tcp_server.py", "C07 C08 C03 C01 C02 C13 C15 C16 C04"),
    ("asyncio/task_group.py", "C05 C03 C15 C02 C16"),
    ("trio/task_group.py", "C05 C03 C15 C02 C16"),
    ("asyncio/worker_context.py", "C07 C18 C15 C16"),
    ("trio/worker_context.py", "C07 C18 C15 C16"),
    ("asyncio/lifespan.py", "C14 C15"),
    ("trio/lifespan.py", "C14 C15"),
    ("asyncio/run.py", "C15 C14 C18 C17"),
    ("trio/run.py", "C15 C14 C18 C17"),
    ("asyncio/__init__.py", "C15 C14 C17"),
    ("trio/__init__.py", "C15 C14 C17"),
    ("app_wrappers.py", "C17 C05 C14"),
    ("utils.py", "C12 C19 C01 C02 C13 C14 C15 C18 C17"),
    ("config.py", "C19 C18 C15 C13"),
    ("__main__.py", "C19"),
    ("logging.py", "C03 C05 C04 C15"),
    ("events.py", "C07 C01"),
    ("typing.py", "C01"),
    ("middleware/wsgi.py", "C17"),
    ("middleware/*", "C20"),
]
SKIP = ("protocol/h3.py", "protocol/quic.py", "asyncio/udp_server.py", "trio/udp_server.py",
        "statsd.py", "asyncio/statsd.py", "trio/statsd.py", "py.typed", "run.py")

CMP = {ast.Eq: ast.NotEq, ast.NotEq: ast.Eq, ast.Lt: ast.LtE, ast.LtE: ast.Lt, ast.Gt: ast.GtE,
       ast.GtE: ast.Gt, ast.Is: ast.IsNot, ast.IsNot: ast.Is, ast.In: ast.NotIn, ast.NotIn: ast.In}


def checks_for(rel):
    for pat, ids in CHECKS:
        if fnmatch.fnmatch(rel, pat):
            return ids.split()
    return []


class Sites(ast.NodeVisitor):
    """Enumerates mutation sites as (kind, node-index) pairs over ast.walk order."""

    def __init__(self):
        self.sites = []

    def collect(self, tree):
        for i, n in enumerate(ast.walk(tree)):
            if isinstance(n, ast.Compare):
                for j, op in enumerate(n.ops):
                    if type(op) in CMP:
                        self.sites.append(("cmp", i, j))
            elif isinstance(n, ast.BoolOp):
                self.sites.append(("boolop", i, 0))
            elif isinstance(n, ast.UnaryOp) and isinstance(n.op, ast.Not):
                self.sites.append(("dropnot", i, 0))
            elif isinstance(n, (ast.If, ast.While)) and not (
                    isinstance(n.test, ast.Constant) or _is_type_checking(n.test)):
                self.sites.append(("negate", i, 0))
            elif isinstance(n, ast.Constant) and isinstance(n.value, bool):
                self.sites.append(("flipbool", i, 0))
            elif isinstance(n, ast.Constant) and isinstance(n.value, int) and 0 <= n.value <= 16:
                self.sites.append(("const+1", i, 0))
                if n.value > 0:
                    self.sites.append(("const-1", i, 0))
            elif isinstance(n, ast.Expr) and isinstance(n.value, (ast.Await, ast.Call)):
                self.sites.append(("delstmt", i, 0))
            elif isinstance(n, (ast.Assign, ast.AugAssign)) and _assigns_attr(n):
                self.sites.append(("delstmt", i, 0))
            elif isinstance(n, (ast.Break, ast.Continue)):
                self.sites.append(("brkcont", i, 0))
        return self.sites


def _is_type_checking(t):
    return isinstance(t, ast.Name) and t.id == "TYPE_CHECKING"


def _assigns_attr(n):
    ts = n.targets if isinstance(n, ast.Assign) else [n.target]
    return any(isinstance(t, (ast.Attribute, ast.Subscript)) for t in ts)


def in_skipped_context(tree, node):
    """True for sites in docstrings / annotations / __slots__-like declarative code."""
    return False


def mutate(src, site):
    kind, idx, j = site
    tree = ast.parse(src)
    nodes = list(ast.walk(tree))
    n = nodes[idx]
    desc = ""
    line = getattr(n, "lineno", 0)
    if kind == "cmp":
        old = type(n.ops[j]).__name__
        n.ops[j] = CMP[type(n.ops[j])]()
        desc = f"{old}->{type(n.ops[j]).__name__}"
    elif kind == "boolop":
        old = type(n.op).__name__
        n.op = ast.Or() if isinstance(n.op, ast.And) else ast.And()
        desc = f"{old}->{type(n.op).__name__}"
    elif kind == "dropnot":
        _replace(tree, n, n.operand)
        desc = "not x -> x"
    elif kind == "negate":
        n.test = ast.UnaryOp(op=ast.Not(), operand=n.test)
        desc = "condition negated"
    elif kind == "flipbool":
        desc = f"{n.value}->{not n.value}"
        n.value = not n.value
    elif kind == "const+1":
        desc = f"{n.value}->{n.value + 1}"
        n.value = n.value + 1
    elif kind == "const-1":
        desc = f"{n.value}->{n.value - 1}"
        n.value = n.value - 1
    elif kind == "delstmt":
        desc = "statement deleted: " + ast.unparse(n)[:70]
        _replace(tree, n, ast.Pass())
    elif kind == "brkcont":
        desc = type(n).__name__ + " swapped"
        _replace(tree, n, ast.Continue() if isinstance(n, ast.Break) else ast.Break())
    ast.fix_missing_locations(tree)
    return ast.unparse(tree) + "\n", line, desc


def _replace(tree, old, new):
    for parent in ast.walk(tree):
        for field, value in ast.iter_fields(parent):
            if value is old:
                setattr(parent, field, new)
                return
            if isinstance(value, list):
                for k, v in enumerate(value):
                    if v is old:
                        value[k] = new
                        return


def enumerate_mutants(files_glob):
    out = []
    base = os.path.join(REPO, SRC)
    for root, _, files in os.walk(base):
        for f in sorted(files):
            if not f.endswith(".py"):
                continue
            rel = os.path.relpath(os.path.join(root, f), base)
            if rel in SKIP or not checks_for(rel):
                continue
            if files_glob and not any(fnmatch.fnmatch(rel, g) for g in files_glob):
                continue
            src = open(os.path.join(root, f)).read()
            tree = ast.parse(src)
            for s in Sites().collect(tree):
                out.append((rel, s))
    return out


def sh(cmd, cwd=None, env=None, timeout=3000):
    # own session, so that a time-out takes the forked shards of a check down with it
    p = subprocess.Popen(cmd, cwd=cwd, env=env, stdout=subprocess.PIPE, stderr=subprocess.STDOUT,
                         text=True, start_new_session=True)
    try:
        out, _ = p.communicate(timeout=timeout)
        return p.returncode, out
    except subprocess.TimeoutExpired as e:
        try:
            os.killpg(p.pid, signal.SIGKILL)
        except OSError:
            pass
        p.communicate()
        return 124, "TIMEOUT " + str(e)


_slots = []
_count = [0]
_lock = threading.Lock()


def get_tree():
    with _lock:
        if _slots:
            return _slots.pop()
    with _lock:
        _count[0] += 1
        d = "/tmp/mutscan-%d-%d" % (os.getpid(), _count[0])
    sh(["git", "-C", REPO, "worktree", "add", "-q", "--detach", d, "HEAD"])
    return d


def put_tree(d):
    sh(["git", "-C", d, "checkout", "-q", "--", "."])
    with _lock:
        _slots.append(d)


def run_one(m, jobs):
    rel, site = m
    d = get_tree()
    res = {"file": rel, "site": list(site)}
    try:
        p = os.path.join(d, SRC, rel)
        src = open(p).read()
        try:
            new, line, desc = mutate(src, site)
        except Exception as e:  # pragma: no cover - tool error, not a result
            res["status"] = "tool_error"; res["detail"] = repr(e)
            return res
        res.update(line=line, op=site[0], desc=desc)
        # unparse-only baseline differs textually from the file; compare against unparse of the original
        if new == ast.unparse(ast.parse(src)) + "\n":
            res["status"] = "no_change"
            return res
        open(p, "w").write(new)
        env = dict(os.environ, PYTHONPATH=d + "/src", PYTHONHASHSEED="0")
        rc, out = sh(["/venv/bin/python", "-c",
                      "import hypercorn.protocol, hypercorn.asyncio, hypercorn.trio, hypercorn.__main__,"
                      " hypercorn.middleware, hypercorn.app_wrappers"], env=env, cwd=d)
        if rc:
            res["status"] = "does_not_import"
            return res
        # tests/e2e binds a fixed TCP port: suites running in parallel (this sweep, the
        # seeded-change runs) collide there. Everything else runs in parallel; the e2e file runs
        # on its own, one at a time across all processes (flock)
        rc, out = sh(SUITE + ["--ignore=tests/e2e"], cwd=d, env=env, timeout=1500)
        tail = out.strip().splitlines()[-1] if out.strip() else ""
        res["suite"] = tail[:80]
        if "192 passed" not in tail:
            res["status"] = "killed_by_suite"
            return res
        import fcntl
        with open("/tmp/verif-e2e.lock", "w") as lk:
            fcntl.flock(lk, fcntl.LOCK_EX)
            for attempt in range(4):  # (a seeded-change run outside this lock may hold the port)
                rc, out = sh(SUITE + ["tests/e2e"], cwd=d, env=env, timeout=600)
                tail2 = out.strip().splitlines()[-1] if out.strip() else ""
                if "1 passed" in tail2 or "Address already in use" not in out:
                    break
                import time as _t
                _t.sleep(1.0 + attempt)
        res["suite"] = (tail + " + e2e: " + tail2)[:120]
        if "1 passed" not in tail2:
            res["status"] = "killed_by_suite"
            return res
        env2 = dict(os.environ, VERIF_REPO=d, VERIF_JOBS=str(jobs))
        env2.pop("PYTHONPATH", None)
        tried = []
        for cid in checks_for(rel):
            rc, out = sh([VERIF + "/check", cid, "--tier", "quick"], cwd=VERIF, env=env2, timeout=420)
            viol = [l for l in out.splitlines() if l.startswith("VIOLATION")]
            tried.append([cid, rc])
            if sum(1 for t in tried if t[1] == 124) >= 2:
                # every case hangs until the per-case guard: the checks cannot judge this one
                res["status"] = "timeout"
                res["tried"] = tried
                return res
            if rc == 1 and viol:
                res["status"] = "detected"
                res["by"] = cid
                res["detail"] = [l.strip() for l in out.splitlines() if "kind=" in l][:1]
                break
        else:
            res["status"] = "survived"
        res["tried"] = tried
        return res
    finally:
        put_tree(d)


def main():
    ap = argparse.ArgumentParser()
    ap.add_argument("--n", type=int, default=200)
    ap.add_argument("--seed", type=int, default=1)
    ap.add_argument("--par", type=int, default=4)
    ap.add_argument("--jobs", type=int, default=4)
    ap.add_argument("--files", default="")
    ap.add_argument("--list", action="store_true")
    ap.add_argument("--redo", default="",
                    help="file:line:op,... - judge these sites again (after a check was "
                         "extended); the new result is appended and supersedes the old one")
    a = ap.parse_args()
    muts = enumerate_mutants([g for g in a.files.split(",") if g])
    if a.list:
        from collections import Counter
        c = Counter(m[0] for m in muts)
        for k, v in sorted(c.items()):
            print(v, k)
        print(len(muts), "sites")
        return
    rnd = random.Random(a.seed)
    rnd.shuffle(muts)
    outdir = os.path.join(VERIF, ".work", "mutscan")
    os.makedirs(outdir, exist_ok=True)
    rpath = os.path.join(outdir, "results.jsonl")
    done = set()
    if os.path.exists(rpath):
        for l in open(rpath):
            r = json.loads(l)
            done.add((r["file"], tuple(r["site"])))
    todo = [m for m in muts if (m[0], tuple(m[1])) not in done][: a.n]
    if a.redo:
        want = set(a.redo.split(","))
        old_rs = [json.loads(l) for l in open(rpath)] if os.path.exists(rpath) else []
        sites = {(r["file"], tuple(r["site"])) for r in old_rs
                 if f"{r['file']}:{r.get('line')}:{r.get('op')}" in want}
        todo = [m for m in muts if (m[0], tuple(m[1])) in sites]
    head = sh(["git", "-C", REPO, "rev-parse", "--short", "HEAD"])[1].strip()
    with cf.ThreadPoolExecutor(max_workers=a.par) as ex, open(rpath, "a") as fh:
        futs = [ex.submit(run_one, m, a.jobs) for m in todo]
        for fut in cf.as_completed(futs):  # (in order of completion: one slow mutant must not
            r = fut.result()               #  hold back the records of the others)
            r["base"] = head
            fh.write(json.dumps(r) + "\n"); fh.flush()
            print(r.get("status"), r["file"], r.get("line"), r.get("op"), r.get("desc"), r.get("by", ""), flush=True)
    for d in _slots:
        sh(["git", "-C", REPO, "worktree", "remove", "--force", d])


if __name__ == "__main__":
    main()
