#!/bin/bash
# usage: tools/benign.sh [patch ...]  -- negative control: property-preserving changes of /repo
# (benign/*.diff) applied in a scratch worktree; every registered check's quick tier must stay quiet.
cd /verif
patches=${@:-benign/b*.diff}
ids=$(/venv/bin/python -c "import json;print(' '.join(c['property_id'] for c in json.load(open('/verif/MANIFEST.json'))['checks']))")
for p in $patches; do
  d=/tmp/benign-$$
  git -C /repo worktree add -q --detach $d HEAD || exit 2
  if ! git -C $d apply /verif/$p; then echo "$p: DOES NOT APPLY"; git -C /repo worktree remove --force $d; continue; fi
  suite=$(cd $d && PYTHONPATH=$d/src timeout 900 /venv/bin/python -m pytest -q -p no:cacheprovider --timeout=900 --deselect tests/asyncio/test_sanity.py::test_http2_websocket --deselect tests/trio/test_sanity.py::test_http2_websocket 2>&1 | tail -1)
  bad=""
  for id in $ids; do
    out=$(VERIF_REPO=$d ./check $id --tier quick 2>&1); rc=$?
    if [ $rc -ne 0 ]; then bad="$bad $id(rc=$rc)"; echo "$out" | grep -A2 "^VIOLATION\|HARNESS" | head -6; fi
  done
  echo "$p: suite='$suite' alarms:${bad:- none}"
  git -C /repo worktree remove --force $d
done
