#!/venv/bin/python
"""Regenerates MANIFEST.json from the table below (run after adding/removing a check)."""
import json
import os
import sys

HERE = os.path.dirname(os.path.dirname(os.path.abspath(__file__)))

# id -> (level, technique, level text, level note, design ref)
CHECKS = {
    "C01": (
        "exploration",
        "Hypothesis-generated structured requests x read segmentations x delays on virtual-time "
        "asyncio and trio simulators; oracle = expectation computed from the request structure; "
        "exhaustive two-way splits of template requests",
        "Each generated request (HTTP/1.0/1.1 content-length/chunked, HTTP/2 DATA plans, bodies up "
        "to 400 KB, queue sizes 1..10) is delivered through the real TCPServer of both workers "
        "under arbitrary segmentation and timing; scope fields and body bytes must equal what was "
        "sent, with exactly one final more_body=False iff the body was completed.",
        "in-memory transport models (sim/) stand in for sockets; h2 library builds client frames",
        "DESIGN.md §4 C01",
    ),
    "C02": (
        "exploration",
        "Hypothesis-generated response programs x protocols x client pace on virtual-time asyncio "
        "and trio simulators; oracle = own strict HTTP/1 response parser (h11 client as second "
        "opinion) and own HTTP/2 frame/HPACK accounting",
        "Every generated application response (status 200-599, header lists, chunkings up to "
        "several windows, early hints, trailers) must be recovered identically by an independent "
        "client parser on HTTP/1.0, 1.1, 2 and h2c under paused, dribbling, late and "
        "connection-only acknowledgement; bodies suppressed exactly for HEAD/204/304; trailers "
        "only on HTTP/2 with te: trailers.",
        "applications obey ASGI; in-memory transport models; 'only if' direction for trailers",
        "DESIGN.md §4 C02",
    ),
    "C03": (
        "fault_enumeration",
        "Hypothesis-generated application shapes x closure events x instants x trio schedule "
        "seeds, plus client EOF enumerated after every byte of a pipeline, on virtual-time "
        "simulators of both workers; oracle = counting invariants over the application's "
        "received messages, its leftover queue and the access-log recorder",
        "HTTP/1 (incl. pipelined pairs), HTTP/2 with two streams and WebSocket on both carriers; "
        "applications that wait for the disconnect and then send state-valid messages, exit "
        "early, late or raise; closure by client EOF / reset / write failure at write n / "
        "RST_STREAM / close frame / connection: close / keep-alive expiry / shutdown flag. "
        "Per instance: disconnects received + left queued == 1, nothing after it, no send "
        "raises after closure, exactly one access record; no record without a request.",
        "queue contents of exited applications are read through the receive callable's owner; "
        "one recorded finding (C03-1 parked reader) excluded by construction",
        "DESIGN.md §4 C03",
    ),
    "C05": (
        "fault_enumeration",
        "Hypothesis-generated application programs with the crash point enumerated over every "
        "op index x {raise, raise ExceptionGroup, return, cancel} x protocol contexts on both "
        "workers; oracle = independent client parse (own HTTP/1 parser, own HTTP/2 frame "
        "accounting, own WebSocket frame parser) + log and witness checks",
        "For HTTP/1.1 (with a pipelined follower), HTTP/1.0 with a length, concurrent HTTP/2 "
        "streams and WebSocket on both carriers: a failure before the response started yields a "
        "complete 500; after it started the client sees a truncated response and a closed "
        "connection (HTTP/1) or RST_STREAM without END_STREAM (HTTP/2), never a complete one; "
        "after completion the response is intact; raising applications are logged once; sibling "
        "streams, a later stream and a later connection are served.",
        "HTTP/1.0 without a length and crashes after all declared bytes were delivered are "
        "outside the domain",
        "DESIGN.md §4 C05",
    ),
    "C06": (
        "exploration",
        "Hypothesis-generated HTTP/1.x pipelines x segmentations x per-request application "
        "behaviours x trio schedule seeds on virtual-time simulators of both workers; oracle = "
        "RFC 7230 6.3 persistence reference model + ordering invariants over the global event "
        "log + quiescence (dead-lock) detection",
        "Pipelines of 1..6 requests (bodies, framings, Connection headers, HTTP/1.0, Expect) "
        "delivered from one read to one byte per read; applications answer before/while/after "
        "reading, leave the body unread, abort, or send connection: close; "
        "keep_alive_max_requests from 1. Checked: responses complete, in order, own bodies; "
        "instance i+1 starts after response i's last byte; bodies never leak; number served = "
        "model; close at the instant the last response is over, announced when knowable.",
        "in-memory transport models; early responses to unread bodies: reuse and close both "
        "accepted; one recorded finding (C06-1) excluded by construction and reported",
        "DESIGN.md §4 C06",
    ),
    "C07": (
        "fault_enumeration",
        "Hypothesis-generated session histories x keep_alive_timeout values interpreted live on "
        "virtual-time simulators of both workers; oracle = reference timer model evaluated "
        "during the history with exact-instant equality, plus release checks at quiescence",
        "Histories of complete / slow / pipelined requests, partial heads, pauses of 0, T-e, T, "
        "T+e, 2T, 1000T at every position, HTTP/2 streams, WebSocket sessions held open for up "
        "to 1000T, provoked error responses, the shutdown flag and peer loss (EOF, reset, write "
        "failure) idle or busy, for T from 0.01 to 10^4: the server must close at exactly "
        "idle-start + T in virtual time (at once when shutdown has begun; no later than T after "
        "a server-generated error response), never during a request or open WebSocket, and "
        "after peer loss the handler and transport must be finished when the last application "
        "returns, with no task left.",
        "virtual clocks replace wall time (asyncio counter clock with 1e-6 resolution, trio "
        "MockClock autojump); trio scheduling pinned by a generated seed",
        "DESIGN.md §4 C07",
    ),
    "C08": (
        "fault_enumeration",
        "Hypothesis-generated write plans x stalled clients x release events on virtual-time "
        "simulators of both workers; oracle = held-bytes bound checked on the 1x and the 4x "
        "response (metamorphic: independent of size), witness connection / sibling stream, and "
        "quiescence: no application send pending after the event",
        "A client that stops reading (HTTP/1, kernel buffer 0..256 KiB) or whose HTTP/2 stream / "
        "connection window is exhausted (also WebSocket over HTTP/2) receives responses of up to "
        "~2 MiB; while stalled the bytes of returned sends minus bytes accepted must stay under "
        "256 KiB + 2 chunks for both response sizes, a second connection and a sibling stream "
        "must be served, and after resume / WINDOW_UPDATE (stream, connection, SETTINGS) / "
        "RST_STREAM / EOF / reset / write error no send may still be pending at quiescence.",
        "transport models stand for kernel socket buffers; two recorded findings (C08-1 HTTP/2 "
        "bound, C08-2 HTTP/1 half-close) are reported and matched specifically",
        "DESIGN.md §4 C08",
    ),
    "C09": (
        "exploration",
        "Hypothesis-generated multiplexed responses under generated WINDOW_UPDATE / SETTINGS / "
        "PRIORITY / RST_STREAM operation sequences; oracle = own flow-control ledger over the "
        "decoded frames in causal order, per-stream prefix/completion/END_STREAM accounting, "
        "progress invariant at quiescent points, step-counting spin detectors on both loops",
        "1..6 concurrent streams (chunkings up to several windows, delays), client initial "
        "windows 0 / 1 / small / default / 1 MiB, max frame sizes, credit in arbitrary increments "
        "and order at stream and connection level and via SETTINGS up and down, priority trees "
        "(dependencies, exclusive, PRIORITY before HEADERS), resets at arbitrary points: no DATA "
        "frame may exceed the ledger's stream window, connection window or max frame size; "
        "delivered bytes are an in-order prefix; with ample credit every live stream completes "
        "with exactly one END_STREAM; at quiescence nothing sendable is held back; the loop "
        "does not spin.",
        "h2 library (client role) encodes the client's frames; one recorded third-party finding "
        "(C09-1 priority cycle) excluded by construction",
        "DESIGN.md §4 C09",
    ),
    "C10": (
        "exploration",
        "Hypothesis-generated WebSocket message sequences x byte-level fragmentation x "
        "permessage-deflate x interleaved pings x read segmentation x carriers x workers; oracle "
        "= round trip through an own RFC 6455 encoder/decoder and a size-limit reference model",
        "Messages (text/binary, empty to 70 KB, sizes within +-1 of websocket_max_message_size "
        "0..64) fragmented at byte level (inside code points), compressed or not, with pings "
        "between fragments, over HTTP/1.1 upgrade and HTTP/2 extended CONNECT: the application "
        "must receive each complete message once, in order, same type and payload; nothing at "
        "or after the first over-limit message, 1009 sent; pongs echo pings; application "
        "messages decoded from the server's frames must equal what it sent.",
        "in-memory transport models; pings after an over-limit message unconstrained; one "
        "recorded third-party finding (C10-1, wsproto) excluded by construction and reported",
        "DESIGN.md §4 C10",
    ),
    "C11": (
        "exploration",
        "Hypothesis-generated handshakes x application decisions x closing orders on both "
        "carriers and workers; oracle = handshake validity model, own SHA-1 accept token, "
        "subprotocol/extension rules, close-code table",
        "Header combinations (method, version, Upgrade/Connection token forms, key, "
        "Sec-WebSocket-Version, offers; HTTP/2 CONNECT with/without :protocol) decide between "
        "101/200 with a websocket application and 400 without one; accept / close (403) / HTTP "
        "response extension / crash (500) are rendered exactly; websocket.disconnect carries the "
        "client's code (1005 if none), 1000 after the application's own close, 1006 on loss, "
        "including a close that races with a stalled server close.",
        "requests lacking the upgrade routing tokens are ordinary HTTP (only 'no websocket "
        "scope' is asserted); one recorded finding (C11-1) excluded by construction",
        "DESIGN.md §4 C11",
    ),
    "C12": (
        "exploration",
        "exhaustive enumeration of short send sequences + Hypothesis-generated sequences up to 6 "
        "over the ASGI send alphabet; oracle = reference automaton of the ASGI spec, zero "
        "wire-byte delta for raising calls, own parsers over the final wire bytes, "
        "header-injection scan",
        "For HTTP/1.1, HTTP/2 and WebSocket on both carriers: every enumerated invalidity class "
        "(body before start, second start, anything after completion, websocket.send before "
        "accept, unknown type, str/pseudo headers, non-str push path/text) must raise with "
        "nothing written; valid messages must not raise; what is on the wire must parse as at "
        "most one final response head per request and contain only header fields the "
        "application supplied intact (no CR/LF/NUL).",
        "client passive; spec-dubious combinations outside the statement's list are "
        "unconstrained for raising (wire checks still apply)",
        "DESIGN.md §4 C12",
    ),
    "C13": (
        "exploration",
        "exhaustive enumeration of two-way splits of 18 opening/follow-up combinations + "
        "Hypothesis-generated openings with k-way splits; oracle = expected protocol per "
        "opening, exactly-once service with own bodies, metamorphic equality with the unsplit "
        "delivery",
        "ALPN h2 / http/1.1 / cleartext x HTTP/2 preface, h2c upgrade (default, empty, absent, "
        "non-default HTTP2-Settings; with a body = ignored), WebSocket upgrade (token forms), "
        "plain requests, followed by further requests in the same or a later read: the scope's "
        "protocol must be the one the opening dictates, h2c answers 101 then stream 1, every "
        "request reaches the application once with its own body and gets its own response, and "
        "any split of the bytes yields the same normalised observation as no split.",
        "client byte stream fixed up front; ALPN injected via the attribute the server reads",
        "DESIGN.md §4 C13",
    ),
    "C17": (
        "exploration",
        "Hypothesis-generated requests x WSGI application shapes through WSGIWrapper, the WSGI "
        "middlewares and TaskGroup.spawn_app; oracle = PEP 3333 reference environ/response + "
        "call/close/thread counters",
        "Each generated request (escaped and non-ASCII paths under root_path prefixes, repeated "
        "headers, bodies split into messages, sizes around the limit) against each of 10 WSGI "
        "application shapes: environ compared with a reference built from the request, status / "
        "headers / body compared with what the application produced, exactly one call (off the "
        "loop thread on the threaded runners), close() exactly once, 400 beyond the limit, "
        "WebSocket refused.",
        "bulk cases replace the thread hand-off by synchronous stand-ins; real threads are used "
        "for a sample through both middlewares and both workers' TaskGroup",
        "DESIGN.md §4 C17",
    ),
    "C19": (
        "exploration",
        "Hypothesis property tests (loader agreement, CLI flag table, bind sockets, IMF-fixdate "
        "round trip) + exhaustive enumeration of all CLI option pairs",
        "Generated configuration mappings through 8 loader forms must agree; every CLI option "
        "alone and in every pair must set exactly its documented attribute and nothing else "
        "(enumerated exhaustively, plus random vectors over config files); generated bind strings "
        "are bound for real and the socket facts compared; dates parsed by an own strict parser.",
        "hypercorn.run.run replaced by a recorder; loopback addresses bindable; flag table "
        "transcribed from docs/how_to_guides/configuring.rst",
        "DESIGN.md §4 C19",
    ),
    "C20": (
        "exploration",
        "Hypothesis property tests: ProxyFix against a reference model + metamorphic "
        "attacker-prefix invariance + caller-scope immutability; Dispatcher routing model and "
        "lifespan fan-out with scripted mounts under virtual time; Redirect location model",
        "Generated forwarding-header lists (several lines, comma lists, spaces, legacy and RFC "
        "7239) x trusted_hops 0..4 x mode; ordered mount tables x paths; 1..4 lifespan mounts "
        "with delays and hangs on both dispatcher variants; redirect scopes x host sources x "
        "root_path x raw_path x query x HTTP version.",
        "Forwarded elements in canonical lower-case unquoted form; quiescence of the virtual "
        "loop / MockClock stands for 'never completes'",
        "DESIGN.md §4 C20",
    ),
}

PENDING_REASON = "check not built yet in this revision of /verif (see DESIGN.md §10 build order)"
ALL = ["C%02d" % i for i in range(1, 21)]


def main() -> None:
    checks = []
    for pid in ALL:
        if pid not in CHECKS:
            continue
        level, technique, text, note, ref = CHECKS[pid]
        checks.append({
            "property_id": pid,
            "quick_cmd": f"./check {pid} --tier quick",
            "thorough_cmd": f"./check {pid} --tier thorough",
            "evidence_file": f"/verif/evidence/{pid}.json",
            "replay_cmd_template": f"./check {pid} --replay {{path}}",
            "engine": "pbt-runner",
            "level_claimed": {"category": level, "text": text, "design_ref": ref},
            "level_note": note,
            "technique": technique,
        })
    na = [{"property_id": p, "reason": PENDING_REASON} for p in ALL if p not in CHECKS]
    manifest = {
        "version": 1,
        "setup_cmd": "./setup.sh",
        "hooks": {
            "guard": "HYPERCORN_VERIF",
            "enable": "no source hooks: checks import /repo/src directly (sys.path) and drive "
                      "the public constructors; the guard name is reserved and unused",
            "baseline_off_cmd": "cd /repo && /venv/bin/python -m pytest -ra -q -p no:cacheprovider "
                                "--timeout=900 --continue-on-collection-errors",
            "source_commits": [],
            "add_only": True,
        },
        "engines": [
            {"name": "pbt-runner", "path": "/verif/check",
             "serves_properties": [c["property_id"] for c in checks],
             "kind_free_text": "sharded Hypothesis / enumeration runner (vlib/core.py) over "
                               "virtual-time connection simulators (sim/) with independent "
                               "wire codecs (wire/); atheris fuzz targets under fuzz/"},
        ],
        "checks": checks,
        "not_applicable": na,
        "notes": "All checks: exit 0 held / 1 VIOLATION / 2 harness error. VERIF_SEED seeds "
                 "Hypothesis; VERIF_REPO (default /repo) selects the tree; known_findings.json "
                 "lists recorded and fixed defects.",
    }
    with open(os.path.join(HERE, "MANIFEST.json"), "w") as f:
        json.dump(manifest, f, indent=1)
        f.write("\n")


if __name__ == "__main__":
    main()
