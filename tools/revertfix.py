#!/venv/bin/python
"""Sensitivity experiment: undo each `fix:` commit of /repo in a scratch worktree and ask the
owning check whether it notices - once with the committed regression replays, once with the
generators alone (VERIF_NO_FIXED_REPLAY=1).

usage: tools/revertfix.py [commit ...]      (default: every fixed entry of known_findings.json)

Result: seeded/REVERTS.json (one row per commit).  Nothing here is a registered check.
"""
import json, os, subprocess, sys, concurrent.futures as cf

VERIF = os.path.dirname(os.path.dirname(os.path.abspath(__file__)))
REPO = "/repo"


def sh(cmd, cwd=None, env=None, timeout=3000):
    try:
        p = subprocess.run(cmd, cwd=cwd, env=env, capture_output=True, text=True, timeout=timeout)
        return p.returncode, p.stdout + p.stderr
    except subprocess.TimeoutExpired as e:
        return 124, "TIMEOUT " + str(e)


def one(item):
    commit, pids, ids = item
    d = "/tmp/revert-%s-%d" % (commit, os.getpid())
    res = {"commit": commit, "entries": ids, "properties": pids}
    rc, out = sh(["git", "-C", REPO, "worktree", "add", "-q", "--detach", d, "HEAD"])
    if rc:
        res["error"] = out[-200:]
        return res
    try:
        rc, out = sh(["git", "-C", d, "revert", "--no-commit", commit])
        res["reverts_cleanly"] = rc == 0
        if rc:
            res["revert_output"] = out[-300:]
            return res
        env = dict(os.environ, VERIF_REPO=d, VERIF_JOBS=os.environ.get("RECONF_JOBS", "4"))
        env.pop("PYTHONPATH", None)
        for pid in pids:
            row = {}
            for label, extra in (("with_replays", {}), ("generators_only", {"VERIF_NO_FIXED_REPLAY": "1"})):
                rc, out = sh([VERIF + "/check", pid, "--tier", "quick"], cwd=VERIF, env=dict(env, **extra))
                viol = [l for l in out.splitlines() if l.startswith("VIOLATION")]
                row[label] = {"rc": rc, "detected": rc == 1 and bool(viol),
                              "first": [l.strip() for l in out.splitlines() if "kind=" in l][:2]}
            res.setdefault("checks", {})[pid] = row
    finally:
        sh(["git", "-C", REPO, "worktree", "remove", "--force", d])
    return res


def main():
    es = json.load(open(os.path.join(VERIF, "known_findings.json")))["findings"]
    by = {}
    for e in es:
        if e["status"] == "fixed" and e.get("commit"):
            r = by.setdefault(e["commit"], [[], []])
            if e["property"] not in r[0]:
                r[0].append(e["property"])
            r[1].append(e["id"])
    want = sys.argv[1:]
    items = [(c, v[0], v[1]) for c, v in sorted(by.items(), key=lambda kv: kv[1][1]) if not want or c in want]
    rows = []
    with cf.ThreadPoolExecutor(max_workers=int(os.environ.get("RECONF_PAR", "3"))) as ex:
        for r in ex.map(one, items):
            rows.append(r)
            print(r["commit"], r["entries"], "clean_revert=%s" % r.get("reverts_cleanly"),
                  {p: (v["with_replays"]["detected"], v["generators_only"]["detected"])
                   for p, v in r.get("checks", {}).items()}, flush=True)
    path = os.path.join(VERIF, "seeded", "REVERTS.json")
    old = {}
    if os.path.exists(path):
        old = {r["commit"]: r for r in json.load(open(path))}
    for r in rows:
        old[r["commit"]] = r
    json.dump([old[k] for k in sorted(old)], open(path, "w"), indent=1)


if __name__ == "__main__":
    main()
