#!/venv/bin/python
"""atheris / libFuzzer target for C04: bytes -> (opening, segmentation, payload) -> asyncio simulator,
with the C04 oracle inside the target. Findings are bucketed by root cause and written as replay
cases (the campaign itself does not stop at the first one)."""
import json
import os
import sys

HERE = os.path.dirname(os.path.dirname(os.path.abspath(__file__)))
sys.path.insert(0, HERE)
sys.path.insert(0, os.path.join(HERE, ".deps"))
REPO = os.environ.get("VERIF_REPO", "/repo")
sys.path.insert(0, os.path.join(REPO, "src"))

import atheris  # noqa: E402

with atheris.instrument_imports(include=["hypercorn", "h11", "h2", "hpack", "hyperframe",
                                         "wsproto", "priority"]):
    import hypercorn.protocol  # noqa: F401
    import hypercorn.asyncio.tcp_server  # noqa: F401

import checks.c04 as c04  # noqa: E402
from sim.run import run_sim  # noqa: E402
from vlib.core import Violation  # noqa: E402
from wire.h1 import b2s  # noqa: E402
from wire.ws import handshake_request, make_key  # noqa: E402

OUT = os.environ.get("C04_FUZZ_OUT", os.path.join(HERE, ".work", "fuzz-out"))
os.makedirs(OUT, exist_ok=True)
SEEN = set()
COUNT = [0]

PREFIXES = [
    b"",
    c04.PREFACE + b"\x00\x00\x00\x04\x00\x00\x00\x00\x00",
    handshake_request(path="/ws", key=make_key(1)),
    b"GET /x HTTP/1.1\r\nHost: example.com\r\n",
    b"POST /x HTTP/1.1\r\nHost: example.com\r\nTransfer-Encoding: chunked\r\n\r\n",
]


def decode(data: bytes) -> dict:
    fdp = atheris.FuzzedDataProvider(data)
    mode = fdp.ConsumeIntInRange(0, len(PREFIXES) - 1)
    block = fdp.ConsumeIntInRange(0, 40)
    alpn = [None, None, "h2", "http/1.1"][fdp.ConsumeIntInRange(0, 3)] if mode in (0, 1) else None
    payload = PREFIXES[mode] + fdp.ConsumeBytes(4096)
    seg = {"mode": "one", "between": "settle"} if block == 0 else \
        {"mode": "blocks", "block": block, "between": "settle" if block % 2 else "none"}
    return {"kind": "bytes", "data": b2s(payload), "seg": seg, "alpn": alpn, "sched": 0}


def TestOneInput(data: bytes) -> None:
    case = decode(data)
    COUNT[0] += 1

    async def sc(env):
        return await c04.scenario(env, case)

    try:
        obs = run_sim("asyncio", {"keep_alive_timeout": 1e5}, c04.PROGRAMS, sc)
        c04.judge(case, obs)
    except Violation as v:
        key = v.kind + "|" + str(v.tags.get("where", ""))
        if key not in SEEN:
            SEEN.add(key)
            name = "".join(ch if ch.isalnum() else "_" for ch in key)[:80]
            with open(os.path.join(OUT, f"{os.getpid()}-{name}.json"), "w") as f:
                json.dump({"case": case, "violation": v.to_json()}, f)


if __name__ == "__main__":
    atheris.Setup(sys.argv, TestOneInput)
    atheris.Fuzz()
