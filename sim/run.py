"""Back-end neutral entry: run a scenario against scripted apps on asyncio or trio."""
from __future__ import annotations

from typing import Any, Awaitable, Callable, Dict, List, Optional

from .apps import ScriptedApp

BACKENDS = ("asyncio", "trio")


class Obs:
    """Everything observed during one simulated case."""

    def __init__(self) -> None:
        self.backend = ""
        self.env: Any = None
        self.app: Optional[ScriptedApp] = None
        self.value: Any = None
        self.alive: List[str] = []
        self.spin: Optional[str] = None

    @property
    def log(self) -> Any:
        return self.env.log

    @property
    def instances(self) -> list:
        return self.app.instances if self.app else []

    @property
    def conns(self) -> list:
        return self.env.conns


def run_sim(backend: str, cfg: Dict[str, Any], programs: Dict[str, list],
            scenario: Callable[[Any], Awaitable[Any]], state: Optional[dict] = None,
            max_requests: Optional[int] = None, app_factory: Any = None,
            sched: int = 0) -> Obs:
    obs = Obs()
    obs.backend = backend

    def factory(env: Any) -> Any:
        if app_factory is not None:
            return app_factory(env, obs)
        obs.app = ScriptedApp(programs, env)
        return obs.app.wrapper()

    if backend == "asyncio":
        from .aio import run_aio

        res = run_aio(scenario, cfg, factory, state, max_requests)
    else:
        from .trio_ import run_trio

        res = run_trio(scenario, cfg, factory, state, max_requests, sched)
    obs.env = res.get("env")
    obs.value = res.get("value")
    obs.alive = res.get("alive", [])
    obs.spin = res.get("spin")
    return obs
