"""Scripted ASGI applications: the application's behaviour is data (a list of ops)."""
from __future__ import annotations

import copy
from typing import Any, Dict, List, Optional

import sniffio

from wire.h1 import s2b

BYTES_FIELDS = {"body", "bytes"}


def decode_msg(m: Any) -> Any:
    """JSON message -> ASGI message. latin-1 strings become bytes for body/bytes/headers;
    {"$raw": x} passes x through untouched (to build deliberately invalid payloads)."""
    if not isinstance(m, dict):
        return m
    out: Dict[str, Any] = {}
    for k, v in m.items():
        if k in ("$headers_as", "$body_as"):
            continue
        if isinstance(v, dict) and "$raw" in v:
            out[k] = v["$raw"]
        elif k in BYTES_FIELDS and isinstance(v, str):
            out[k] = s2b(v)
            if m.get("$body_as") == "bytearray":  # other bytes-like payloads applications pass
                out[k] = bytearray(out[k])
            elif m.get("$body_as") == "memoryview":
                out[k] = memoryview(out[k])
        elif k == "headers" and isinstance(v, list):
            hs = []
            for h in v:
                if isinstance(h, dict) and "$raw" in h:
                    hs.append(tuple(h["$raw"]) if isinstance(h["$raw"], list) else h["$raw"])
                    continue
                n, val = h[0], h[1]
                n = n["$raw"] if isinstance(n, dict) else s2b(n)
                val = val["$raw"] if isinstance(val, dict) else s2b(val)
                hs.append((n, val))
            # the ASGI specification types headers as an Iterable: "$headers_as" asks for one
            # of the other shapes applications really pass (tuples, one-shot iterators, ...)
            shape = m.get("$headers_as")
            if shape == "tuple":
                out[k] = tuple(hs)
            elif shape == "lists":
                out[k] = [list(h) for h in hs]
            elif shape == "iter":
                out[k] = iter(hs)
            elif shape == "generator":
                out[k] = (h for h in hs)
            elif shape == "map":
                out[k] = map(lambda h: (h[0], h[1]), hs)
            else:
                out[k] = hs
        elif k == "links" and isinstance(v, list):
            out[k] = [s2b(x) if isinstance(x, str) else x for x in v]
        else:
            out[k] = v
    return out


def encode_received(m: dict) -> dict:
    out = {}
    for k, v in m.items():
        if isinstance(v, (bytes, bytearray)):
            out[k] = bytes(v)
        else:
            out[k] = v
    return out


async def _sleep(dt: float) -> None:
    if sniffio.current_async_library() == "trio":
        import trio

        await trio.sleep(dt)
    else:
        import asyncio

        await asyncio.sleep(dt)


class Instance:
    def __init__(self, iid: int, scope: dict, log: Any) -> None:
        self.iid = iid
        self.scope = scope
        self.scope_copy = _copy_scope(scope)
        self.received: List[dict] = []
        self.sends: List[dict] = []
        self.exit: Optional[str] = None
        self.exit_seq: Optional[int] = None
        self.exit_t: Optional[float] = None
        self.start_seq = log.add("app_start", iid=iid, path=scope.get("path"),
                                 type=scope.get("type"))["seq"]
        self.start_t = log.now()
        self.disconnected = False
        self.body_done = False
        self.receive: Any = None
        self.extra_after_disconnect = 0
        self.running_at_end = False
        self.state_snaps: List[Any] = []
        self.program: List[Any] = []

    def body(self) -> bytes:
        return b"".join(m.get("body", b"") for m in self.received if m["type"] == "http.request")


def _copy_scope(scope: dict) -> dict:
    out = {}
    for k, v in scope.items():
        if k == "state":
            out[k] = dict(v)
        else:
            try:
                out[k] = copy.deepcopy(v)
            except Exception:
                out[k] = v
    return out


class ScriptedApp:
    """programs: {key: [ops]} keyed by scope path (or 'lifespan'); '*' is the default.

    ops: ["recv"] | ["recv_all"] | ["recv_disc"] | ["send", msg] | ["sleep", dt] | ["yield", n] |
    ["raise", name] | ["return"] | ["respond", status, headers, chunks] |
    ["drain_tail"] | ["wait_quiet"] | ["set_state", k, v]
    """

    def __init__(self, programs: Dict[str, List[Any]], env: Any) -> None:
        self.programs = programs
        self.env = env
        self.log = env.log
        self.instances: List[Instance] = []

    def wrapper(self) -> Any:
        from hypercorn.app_wrappers import ASGIWrapper

        return ASGIWrapper(self)

    async def __call__(self, scope: dict, receive: Any, send: Any) -> None:
        if scope["type"] == "lifespan":
            prog = self.programs.get("lifespan")
            if prog is None:
                raise RuntimeError("lifespan unsupported")
        else:
            prog = self.programs.get(scope.get("path"), self.programs.get("*", [["return"]]))
            prog = self.programs.get("#%d" % len(self.instances), prog)  # by instance number
        inst = Instance(len(self.instances), scope, self.log)
        inst.receive = receive
        inst.program = prog
        self.instances.append(inst)
        try:
            await self._run(inst, prog, receive, send)
            inst.exit = inst.exit or "return"
        except BaseException as e:
            inst.exit = "raise:" + type(e).__name__
            raise
        finally:
            if getattr(self.env, "tearing_down", False):
                inst.exit = None  # still running when the case ended (harness cancelled it)
                inst.running_at_end = True
            ev = self.log.add("app_exit", iid=inst.iid, how=inst.exit)
            inst.exit_seq, inst.exit_t = ev["seq"], ev["t"]

    async def _recv(self, inst: Instance, receive: Any) -> dict:
        m = await receive()
        em = encode_received(m)
        em["_seq"] = self.log.add("app_recv", iid=inst.iid, type=m.get("type"))["seq"]
        em["_t"] = self.log.now()
        if inst.disconnected:
            inst.extra_after_disconnect += 1
        inst.received.append(em)
        t = m.get("type", "")
        if t.endswith(".disconnect"):
            inst.disconnected = True
        if t == "http.request" and not m.get("more_body", False):
            inst.body_done = True
        return m

    async def _send(self, inst: Instance, send: Any, msg: Any) -> Optional[BaseException]:
        conn_rx = self._wire_total()
        rec = {"msg": msg, "wire_before": conn_rx, "t": self.log.now(),
               "seq": self.log.add("app_send", iid=inst.iid,
                                   type=msg.get("type") if isinstance(msg, dict) else None)["seq"]}
        inst.sends.append(rec)
        try:
            await send(decode_msg(msg))
        except Exception as e:
            rec["outcome"] = "raise:" + type(e).__name__
            rec["wire_after"] = self._wire_total()
            rec["done_seq"] = self.log.add("app_send_done", iid=inst.iid, ok=False)["seq"]
            return e
        rec["outcome"] = "ok"
        rec["wire_after"] = self._wire_total()
        rec["done_seq"] = self.log.add("app_send_done", iid=inst.iid, ok=True)["seq"]
        rec["done_t"] = self.log.now()
        return None

    def _wire_total(self) -> int:
        return self.log.wire_total

    async def _run(self, inst: Instance, prog: List[Any], receive: Any, send: Any) -> None:
        for op in prog:
            name = op[0]
            if name == "recv":
                if not inst.disconnected:
                    await self._recv(inst, receive)
            elif name == "recv_all":
                while not inst.body_done and not inst.disconnected:
                    if len(op) > 1 and op[1]:
                        await _sleep(op[1])
                    await self._recv(inst, receive)
            elif name == "recv_disc":
                while not inst.disconnected:
                    await self._recv(inst, receive)
            elif name == "send":
                err = await self._send(inst, send, op[1])
                if err is not None and not (len(op) > 2 and op[2] == "tolerate"):
                    raise err
            elif name == "send_linger":
                # the application does some awaited clean-up before it lets the server's
                # error out (a `finally: await close()`): its coroutine outlives the send
                err = await self._send(inst, send, op[1])
                if err is not None:
                    await _sleep(op[2])
                    raise err
            elif name == "send_in_group":
                # the send happens in a child task of the application's own task group
                # (anyio-style frameworks): a failure it raises surfaces wrapped in a group
                err = await self._send(inst, send, op[1])
                if err is not None:
                    inst.exit = "raise:ExceptionGroup"
                    raise ExceptionGroup("application task group", [err])
            elif name == "universal":
                # serve whatever arrives: echo HTTP bodies, accept and echo WebSockets
                if inst.scope.get("type") == "websocket":
                    sub = [["recv"], ["send", {"type": "websocket.accept"}, "tolerate"],
                           ["ws_loop", {"echo": True, "tolerate": True}]]
                else:
                    sub = [["echo"]]
                await self._run(inst, sub, receive, send)
            elif name == "echo":
                # answer with what was received: "<path>|<body>"
                while not inst.body_done and not inst.disconnected:
                    await self._recv(inst, receive)
                body = inst.scope.get("path", "").encode("utf-8") + b"|" + inst.body()
                await self._send_or_raise(inst, send, {
                    "type": "http.response.start", "status": 200,
                    "headers": [["content-length", str(len(body))]]})
                await self._send_or_raise(inst, send, {
                    "type": "http.response.body", "body": {"$raw": body}, "more_body": False})
            elif name == "ws_loop":
                # receive until the disconnect; optionally echo every message back
                opts = op[1] if len(op) > 1 else {}
                while not inst.disconnected:
                    m = await self._recv(inst, receive)
                    if m.get("type") == "websocket.receive" and opts.get("echo"):
                        out = {"type": "websocket.send"}
                        if m.get("bytes") is not None:
                            out["bytes"] = {"$raw": bytes(m["bytes"])}
                        else:
                            out["text"] = m.get("text")
                        err = await self._send(inst, send, out)
                        if err is not None and not opts.get("tolerate"):
                            raise err
            elif name == "send_if_ext":
                if op[1] in inst.scope.get("extensions", {}):
                    await self._send_or_raise(inst, send, op[2])
            elif name == "start_with_trailers":
                msg = dict(op[1])
                if op[2] and "http.response.trailers" in inst.scope.get("extensions", {}):
                    msg["trailers"] = True
                await self._send_or_raise(inst, send, msg)
            elif name == "respond":
                status, headers, chunks = op[1], op[2], op[3]
                await self._send_or_raise(inst, send, {"type": "http.response.start",
                                                       "status": status, "headers": headers})
                for i, c in enumerate(chunks):
                    await self._send_or_raise(
                        inst, send, {"type": "http.response.body", "body": c, "more_body": True})
                await self._send_or_raise(
                    inst, send, {"type": "http.response.body", "body": "", "more_body": False})
            elif name == "sleep":
                await _sleep(op[1])
            elif name == "yield":  # n scheduler passes: lands the next op inside short windows
                for _ in range(int(op[1])):
                    await _sleep(0)
            elif name == "raise":
                inst.exit = "raise:" + op[1]
                raise {"Exception": Exception, "ValueError": ValueError,
                       "KeyError": KeyError, "RuntimeError": RuntimeError}.get(
                    op[1], Exception)("scripted failure")
            elif name == "raise_group":
                # how a failure surfaces from an application that runs its work in a task group
                inst.exit = "raise:ExceptionGroup"
                raise ExceptionGroup("application task group", [ValueError("scripted failure")])
            elif name == "cancel_self":
                import asyncio

                inst.exit = "cancelled"
                raise asyncio.CancelledError()
            elif name == "return":
                return
            elif name == "set_state":
                inst.scope["state"][op[1]] = op[2]
            elif name == "snap_state":
                inst.state_snaps.append((self.log.now(), dict(inst.scope.get("state", {}))))
            elif name == "wait_quiet":
                # wait until the wire has been quiet for a full (virtual) second
                last = -1
                while last != self._wire_total():
                    last = self._wire_total()
                    await _sleep(1.0)
            elif name == "drain_tail":
                while not inst.disconnected:
                    await self._recv(inst, receive)
                for m in op[1] if len(op) > 1 else []:
                    err = await self._send(inst, send, m)
                    if err is not None:
                        inst.sends[-1]["after_close_raised"] = True
            else:
                raise RuntimeError(f"unknown op {op!r}")

    async def _send_or_raise(self, inst: Instance, send: Any, msg: dict) -> None:
        err = await self._send(inst, send, msg)
        if err is not None:
            raise err


def leftover_queue(inst: Instance) -> Optional[List[dict]]:
    """Messages still queued for an instance that stopped receiving (None if unobservable)."""
    recv = inst.receive
    owner = getattr(recv, "__self__", None)
    if owner is None:
        return None
    q = getattr(owner, "_queue", None)  # asyncio.Queue
    if q is not None:
        return [encode_received(m) for m in list(q)]
    st = getattr(owner, "_state", None)  # trio MemoryReceiveChannel
    data = getattr(st, "data", None)
    if data is not None:
        return [encode_received(m) for m in list(data)]
    return None


def find_queue_deadlock(obs: Any) -> Optional[str]:
    """At quiescence: is a connection still open while an application's receive queue is full?

    That is the signature of a server task (reader, closer or the application itself) blocked
    forever putting into a bounded application queue that nobody will read again."""
    cap = obs.env.config.max_app_queue_size
    if not any(c.handler_done_at is None for c in obs.conns):
        return None
    for inst in obs.instances:
        q = leftover_queue(inst)
        if q is not None and cap > 0 and len(q) >= cap:
            return (f"instance {inst.iid} ({inst.scope.get('path')}) has {len(q)} unread "
                    f"messages (queue size {cap}), exit={inst.exit}")
    return None
