"""Pieces shared by the asyncio and trio simulators: event log, fake socket facts, logger."""
from __future__ import annotations

import socket
from typing import Any, Callable, Dict, List, Optional


class SimError(Exception):
    """The harness itself is in an impossible state (reported as exit 2, never a violation)."""


# iterations of the simulator's schedulers (both back ends), read by the per-case guard in
# vlib.core: a counter that stands still while the process burns CPU means a frozen scheduler
TICKS = [0]


class SpinError(Exception):
    """The event loop ran an excessive number of iterations without virtual time advancing."""


class EventLog:
    """Global, totally ordered observation log (sequence number + virtual time)."""

    def __init__(self, now: Callable[[], float]) -> None:
        self.now = now
        self.events: List[dict] = []
        self.seq = 0
        self.wire_total = 0

    def add(self, kind: str, **fields: Any) -> dict:
        self.seq += 1
        ev = {"seq": self.seq, "t": self.now(), "kind": kind}
        ev.update(fields)
        if kind == "swrite":
            self.wire_total += fields["n"]
        self.events.append(ev)
        return ev

    def of(self, kind: str, **match: Any) -> List[dict]:
        return [e for e in self.events
                if e["kind"] == kind and all(e.get(k) == v for k, v in match.items())]


class FakeSocket:
    def __init__(self, family: int, peer: Any, sock: Any) -> None:
        self.family = family
        self._peer = peer
        self._sock = sock

    def getpeername(self) -> Any:
        return self._peer

    def getsockname(self) -> Any:
        return self._sock


class FakeSSLObject:
    def __init__(self, alpn: Optional[str]) -> None:
        self._alpn = alpn

    def selected_alpn_protocol(self) -> Optional[str]:
        return self._alpn


def make_socket_facts(kind: str = "inet") -> FakeSocket:
    if kind == "inet6":
        return FakeSocket(socket.AF_INET6, ("2001:db8::7", 50123, 0, 0), ("2001:db8::1", 8443, 0, 0))
    if kind == "unix":
        return FakeSocket(socket.AF_UNIX, "", "/run/h.sock")
    return FakeSocket(socket.AF_INET, ("203.0.113.9", 40321), ("198.51.100.2", 8080))


def expected_addrs(kind: str = "inet") -> tuple:
    if kind == "inet6":
        return ("2001:db8::7", 50123), ("2001:db8::1", 8443)
    if kind == "unix":
        return None, None
    return ("203.0.113.9", 40321), ("198.51.100.2", 8080)


def make_logger_class(log: EventLog) -> type:
    """hypercorn's own Logger, writing to two `logging.Logger` objects whose only handler files
    the records in the event log: Logger.access / exception / warning ... run as they are (the
    record is built, and lost, exactly as under a real handler)."""
    import logging as pylog

    from hypercorn.logging import Logger

    class AccessHandler(pylog.Handler):
        def emit(self, record: Any) -> None:
            atoms = record.args
            request, response = getattr(atoms, "_verif", (None, None))
            try:
                line = record.getMessage()
            except Exception as e:  # a format the atoms cannot fill: logging drops the record
                log.add("access_format_error", error=repr(e))
                return
            if request is None:
                log.add("access_unattributed", line=line)
                return
            log.add(
                "access",
                path=request.get("path"),
                scope_type=request.get("type"),
                scope_id=id(request),
                status=None if response is None else response.get("status"),
                line=line,
            )

    class ErrorHandler(pylog.Handler):
        def emit(self, record: Any) -> None:
            if record.exc_info:
                et = record.exc_info[0]
                log.add("errlog", level="exception", message=record.msg,
                        exc=et.__name__ if et else None)
            else:
                log.add("errlog", level=record.levelname.lower(), message=record.msg)

    class RecordingLogger(Logger):
        def __init__(self, config: Any) -> None:  # no files, no global logging configuration
            self.access_log_format = config.access_log_format
            self.access_logger = pylog.Logger("verif.access", pylog.INFO)
            self.access_logger.addHandler(AccessHandler())
            self.error_logger = pylog.Logger("verif.error", pylog.INFO)
            self.error_logger.addHandler(ErrorHandler())

        def atoms(self, request: Any, response: Any, request_time: float) -> Any:
            atoms = super().atoms(request, response, request_time)
            atoms._verif = (request, response)  # which scope the record is about
            return atoms

    return RecordingLogger


def build_config(cfg: Dict[str, Any], log: EventLog) -> Any:
    from hypercorn.config import Config

    config = Config()
    for k, v in (cfg or {}).items():
        setattr(config, k, v)
    config.logger_class = make_logger_class(log)
    return config
