"""Pieces shared by the asyncio and trio simulators: event log, fake socket facts, logger."""
from __future__ import annotations

import socket
from typing import Any, Callable, Dict, List, Optional


class SimError(Exception):
    """The harness itself is in an impossible state (reported as exit 2, never a violation)."""


# iterations of the simulator's schedulers (both back ends), read by the per-case guard in
# vlib.core: a counter that stands still while the process burns CPU means a frozen scheduler
TICKS = [0]


class SpinError(Exception):
    """The event loop ran an excessive number of iterations without virtual time advancing."""


class EventLog:
    """Global, totally ordered observation log (sequence number + virtual time)."""

    def __init__(self, now: Callable[[], float]) -> None:
        self.now = now
        self.events: List[dict] = []
        self.seq = 0
        self.wire_total = 0

    def add(self, kind: str, **fields: Any) -> dict:
        self.seq += 1
        ev = {"seq": self.seq, "t": self.now(), "kind": kind}
        ev.update(fields)
        if kind == "swrite":
            self.wire_total += fields["n"]
        self.events.append(ev)
        return ev

    def of(self, kind: str, **match: Any) -> List[dict]:
        return [e for e in self.events
                if e["kind"] == kind and all(e.get(k) == v for k, v in match.items())]


class FakeSocket:
    def __init__(self, family: int, peer: Any, sock: Any) -> None:
        self.family = family
        self._peer = peer
        self._sock = sock

    def getpeername(self) -> Any:
        return self._peer

    def getsockname(self) -> Any:
        return self._sock


class FakeSSLObject:
    def __init__(self, alpn: Optional[str]) -> None:
        self._alpn = alpn

    def selected_alpn_protocol(self) -> Optional[str]:
        return self._alpn


def make_socket_facts(kind: str = "inet") -> FakeSocket:
    if kind == "inet6":
        return FakeSocket(socket.AF_INET6, ("2001:db8::7", 50123, 0, 0), ("2001:db8::1", 8443, 0, 0))
    if kind == "unix":
        return FakeSocket(socket.AF_UNIX, "", "/run/h.sock")
    return FakeSocket(socket.AF_INET, ("203.0.113.9", 40321), ("198.51.100.2", 8080))


def expected_addrs(kind: str = "inet") -> tuple:
    if kind == "inet6":
        return ("2001:db8::7", 50123), ("2001:db8::1", 8443)
    if kind == "unix":
        return None, None
    return ("203.0.113.9", 40321), ("198.51.100.2", 8080)


def make_logger_class(log: EventLog) -> type:
    from hypercorn.logging import Logger

    class RecordingLogger(Logger):
        def __init__(self, config: Any) -> None:  # no handlers, no files
            self.access_log_format = config.access_log_format
            self.access_logger = None
            self.error_logger = None

        async def access(self, request: Any, response: Any, request_time: float) -> None:
            # the record is built the way hypercorn.logging.Logger.access builds it (atoms and
            # format string), so that code runs - and fails - exactly as under a real handler
            line = self.access_log_format % self.atoms(request, response, request_time)
            log.add(
                "access",
                path=request.get("path"),
                scope_type=request.get("type"),
                scope_id=id(request),
                status=None if response is None else response.get("status"),
                line=line,
            )

        async def critical(self, message: str, *a: Any, **k: Any) -> None:
            log.add("errlog", level="critical", message=message)

        async def error(self, message: str, *a: Any, **k: Any) -> None:
            log.add("errlog", level="error", message=message)

        async def warning(self, message: str, *a: Any, **k: Any) -> None:
            log.add("errlog", level="warning", message=message)

        async def info(self, message: str, *a: Any, **k: Any) -> None:
            log.add("errlog", level="info", message=message)

        async def debug(self, message: str, *a: Any, **k: Any) -> None:
            pass

        async def exception(self, message: str, *a: Any, **k: Any) -> None:
            import sys

            et = sys.exc_info()[0]
            log.add("errlog", level="exception", message=message,
                    exc=et.__name__ if et else None)

        async def log(self, level: int, message: str, *a: Any, **k: Any) -> None:
            log.add("errlog", level=str(level), message=message)

    return RecordingLogger


def build_config(cfg: Dict[str, Any], log: EventLog) -> Any:
    from hypercorn.config import Config

    config = Config()
    for k, v in (cfg or {}).items():
        setattr(config, k, v)
    config.logger_class = make_logger_class(log)
    return config
