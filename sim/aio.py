"""asyncio back end: virtual-clock event loop, in-memory transport, connection driver."""
from __future__ import annotations

import asyncio
import heapq
from typing import Any, Awaitable, Callable, Dict, List, Optional

from .common import (TICKS, EventLog, FakeSSLObject, SimError, SpinError, build_config,
                     make_socket_facts)

SPIN_LIMIT = 400_000


class VirtualLoop(asyncio.SelectorEventLoop):
    """time() is a counter that only moves when nothing is runnable; no real sleeping."""

    def __init__(self) -> None:
        super().__init__()
        # float64 cannot represent t + 1e-9 for virtual times beyond ~4e6 s: a timer due exactly
        # "now" would then never be considered due and the frozen clock would spin for ever
        self._clock_resolution = 1e-6
        self._vtime = 0.0
        self.iterations = 0
        self._spin = 0
        self._waiter: Optional[asyncio.Future] = None
        self._horizon = 0.0
        self.quiescent_hits = 0
        real_select = self._selector.select

        def select(timeout: Optional[float] = None) -> list:
            self.iterations += 1
            TICKS[0] += 1
            events = real_select(0)
            if events:
                self._spin = 0
                return events
            if timeout is not None and timeout <= 0:
                self._spin += 1
                if self._spin > SPIN_LIMIT:
                    sample = [repr(h)[:160] for h in list(self._ready)[:4]]
                    sched = [repr(h)[:120] for h in self._scheduled[:3]]
                    raise SpinError(f"{self._spin} loop iterations at virtual time "
                                    f"{self._vtime}; ready={sample} scheduled={sched}")
                return events
            self._spin = 0
            # nothing is ready at this instant
            nxt = self._scheduled[0]._when if self._scheduled else None
            w = self._waiter
            if w is not None and not w.done():
                if nxt is None or nxt > self._horizon:
                    if nxt is not None:
                        self._vtime = max(self._vtime, self._horizon)
                    self._waiter = None
                    w.set_result("quiescent" if nxt is None else "horizon")
                    return events
            elif nxt is None:
                raise SimError("event loop has nothing to run and no driver is waiting")
            if nxt is not None:
                self._vtime = max(self._vtime, nxt)
            return events

        self._selector.select = select  # type: ignore

    def time(self) -> float:
        return self._vtime

    def run_until(self, horizon: float) -> Awaitable[str]:
        """Await: advance virtual time until `horizon` (absolute) or until nothing is left."""
        if self._waiter is not None and not self._waiter.done():
            raise SimError("only one driver may wait at a time")
        self._waiter = self.create_future()
        self._horizon = horizon
        return self._waiter


class MemoryTransport(asyncio.Transport):
    """Models asyncio's _SelectorSocketTransport over a peer the harness scripts."""

    def __init__(self, loop: VirtualLoop, protocol: asyncio.Protocol, conn: "AioConn",
                 extra: dict) -> None:
        super().__init__(extra)
        self._loop = loop
        self._protocol = protocol
        self.conn = conn
        self._buffer = bytearray()
        self._closing = False
        self._conn_lost = 0
        self._eof = False
        self._high = 64 * 1024
        self._low = 16 * 1024
        self._protocol_paused = False
        self._read_paused = False
        self._pending_in: List[Any] = []
        self.client_accepting = True
        self.kernel_cap = 0
        self.kernel = bytearray()
        self.fail_after: Optional[int] = None
        self._finished = False

    # -- write side -----------------------------------------------------
    def write(self, data: Any) -> None:
        if not isinstance(data, (bytes, bytearray, memoryview)):
            raise TypeError(f"data argument must be a bytes-like object, not {type(data).__name__}")
        if self._eof:
            raise RuntimeError("Cannot call write() after write_eof()")
        if not data:
            return
        if self._conn_lost:
            self._conn_lost += 1
            return
        if self.fail_after is not None:
            if self.fail_after <= 0:
                # (a failing send() reports whatever lost the peer - not always a ConnectionError)
                self._fatal_error({
                    "unreach": OSError(113, "No route to host"),
                    "netdown": OSError(100, "Network is down"),
                    "timedout": TimeoutError(110, "Connection timed out"),
                    "aborted": ConnectionAbortedError(103, "Software caused connection abort"),
                    "reset": ConnectionResetError(104, "Connection reset by peer"),
                }.get(getattr(self, "fail_how", "pipe"), BrokenPipeError(32, "Broken pipe")))
                return
            self.fail_after -= 1
        data = bytes(data)
        self.conn.log.add("swrite", conn=self.conn.cid, n=len(data))
        if self.client_accepting and not self._buffer:
            self.conn._deliver(data)
            return
        room = self.kernel_cap - len(self.kernel)
        if room > 0 and not self._buffer:
            self.kernel += data[:room]
            data = data[room:]
        if data:
            self._buffer += data
            self._maybe_pause_protocol()

    def _maybe_pause_protocol(self) -> None:
        if len(self._buffer) > self._high and not self._protocol_paused:
            self._protocol_paused = True
            self._protocol.pause_writing()

    def _maybe_resume_protocol(self) -> None:
        if self._protocol_paused and len(self._buffer) <= self._low:
            self._protocol_paused = False
            self._protocol.resume_writing()

    def client_resumed(self) -> None:
        self.client_accepting = True
        if self._conn_lost and not self._buffer:
            return
        if self.kernel:
            self.conn._deliver(bytes(self.kernel))
            self.kernel.clear()
        if self._buffer:
            self.conn._deliver(bytes(self._buffer))
            self._buffer.clear()
        self._maybe_resume_protocol()
        if self._closing and not self._finished:
            self._conn_lost += 1
            self._loop.call_soon(self._call_connection_lost, None)
        elif self._eof:
            self.conn._server_eof()

    def client_accept_bytes(self, n: int) -> None:
        """The stalled client reads n more bytes (partial relief of the pressure)."""
        take = bytes(self.kernel[:n])
        del self.kernel[:n]
        n -= len(take)
        if n > 0 and self._buffer:
            take += bytes(self._buffer[:n])
            del self._buffer[:n]
        if take:
            self.conn._deliver(take)
        self._maybe_resume_protocol()
        if not self._buffer and not self.kernel:
            if self._closing and not self._finished:
                self._conn_lost += 1
                self._loop.call_soon(self._call_connection_lost, None)
            elif self._eof:
                self.conn._server_eof()

    def can_write_eof(self) -> bool:
        return True

    def write_eof(self) -> None:
        if self._closing or self._eof:
            return
        self._eof = True
        if not self._buffer and not self.kernel:
            self.conn._server_eof()

    def get_write_buffer_size(self) -> int:
        return len(self._buffer)

    def get_write_buffer_limits(self) -> tuple:
        return (self._low, self._high)

    def set_write_buffer_limits(self, high: Optional[int] = None, low: Optional[int] = None) -> None:
        if high is None:
            high = 64 * 1024 if low is None else 4 * low
        if low is None:
            low = high // 4
        self._high, self._low = high, low

    # -- closing --------------------------------------------------------
    def is_closing(self) -> bool:
        return self._closing

    def close(self) -> None:
        if self._closing:
            return
        self._closing = True
        self.conn.log.add("sclose_called", conn=self.conn.cid)
        if not self._buffer and not self.kernel:
            self._conn_lost += 1
            self._loop.call_soon(self._call_connection_lost, None)

    def abort(self) -> None:
        self._force_close(None)

    def _fatal_error(self, exc: BaseException) -> None:
        self._force_close(exc)

    def _force_close(self, exc: Optional[BaseException]) -> None:
        if self._conn_lost:
            return
        self._buffer.clear()
        self.kernel.clear()
        if not self._closing:
            self._closing = True
        self._conn_lost += 1
        self._loop.call_soon(self._call_connection_lost, exc)

    def _call_connection_lost(self, exc: Optional[BaseException]) -> None:
        if self._finished:
            return
        self._finished = True
        try:
            self._protocol.connection_lost(exc)
        finally:
            self.conn._server_closed(exc)

    # -- read side ------------------------------------------------------
    def is_reading(self) -> bool:
        return not self._read_paused and not self._closing

    def pause_reading(self) -> None:
        self._read_paused = True

    def resume_reading(self) -> None:
        if self._closing or not self._read_paused:
            return
        self._read_paused = False
        pending, self._pending_in = self._pending_in, []
        for item in pending:
            if self._read_paused or self._closing:
                self._pending_in.append(item)
            elif item is None:
                self._deliver_eof()
            else:
                self._protocol.data_received(item)

    def feed(self, data: bytes) -> bool:
        if self._closing or self._conn_lost:
            return False
        if self._read_paused or self._pending_in:
            self._pending_in.append(data)
        else:
            self._protocol.data_received(data)
        return True

    def feed_eof(self) -> None:
        if self._closing or self._conn_lost:
            return
        if self._read_paused or self._pending_in:
            self._pending_in.append(None)
        else:
            self._deliver_eof()

    def _deliver_eof(self) -> None:
        keep_open = self._protocol.eof_received()
        if not keep_open:
            self.close()

    def peer_reset(self, how: str = "reset") -> None:
        # the ways a lost peer surfaces on a socket read: not every one is a ConnectionError
        exc = {"reset": ConnectionResetError(104, "Connection reset by peer"),
               "unreach": OSError(113, "No route to host"),
               "netdown": OSError(100, "Network is down"),
               "timedout": TimeoutError(110, "Connection timed out"),
               "aborted": ConnectionAbortedError(103, "Software caused connection abort")}[how]
        self._fatal_error(exc)


class AioConn:
    """Client-side handle of one simulated connection."""

    def __init__(self, env: "AioEnv", cid: int, alpn: Optional[str], tls: bool,
                 sock_kind: str) -> None:
        self.env = env
        self.cid = cid
        self.log = env.log
        self.rx = bytearray()
        self.rx_marks: List[tuple] = []  # (seq, t, total_len_after)
        self.server_eof_at: Optional[float] = None
        self.server_eof_seq: Optional[int] = None
        self.closed_at: Optional[float] = None
        self.closed_seq: Optional[int] = None
        self.handler_done_at: Optional[float] = None
        self.handler_done_seq: Optional[int] = None
        self.handler_exc: Optional[BaseException] = None
        self.sent_after_close = 0
        self.peer_lost = False  # the client reset the connection / made writes fail
        loop = env.loop
        self.reader = asyncio.StreamReader(loop=loop)
        self.protocol = asyncio.StreamReaderProtocol(self.reader, loop=loop)
        extra: Dict[str, Any] = {"socket": make_socket_facts(sock_kind)}
        if tls:
            extra["ssl_object"] = FakeSSLObject(alpn)
        self.transport = MemoryTransport(loop, self.protocol, self, extra)
        self.protocol.connection_made(self.transport)
        self.writer = asyncio.StreamWriter(self.transport, self.protocol, self.reader, loop)
        from hypercorn.asyncio.tcp_server import TCPServer

        self.server = TCPServer(env.app, loop, env.config, env.context, env.state,
                                self.reader, self.writer)
        self.task = loop.create_task(self._run(), name=f"conn-{cid}")

    async def _run(self) -> None:
        try:
            await self.server.run()
        except asyncio.CancelledError:
            self.log.add("handler_cancelled", conn=self.cid)  # harness teardown
            raise
        except BaseException as e:  # observed, judged by the checks
            self.handler_exc = e
            self.log.add("handler_exc", conn=self.cid, exc=type(e).__name__, msg=str(e)[:200])
        finally:
            if not self.env.tearing_down:
                self.handler_done_at = self.env.now()
                self.handler_done_seq = self.log.add("handler_done", conn=self.cid)["seq"]

    # -- called by the transport -----------------------------------------
    def _deliver(self, data: bytes) -> None:
        self.rx += data
        ev = self.log.add("rx", conn=self.cid, n=len(data), total=len(self.rx))
        self.rx_marks.append((ev["seq"], ev["t"], len(self.rx)))

    def _server_eof(self) -> None:
        if self.env.tearing_down:
            return
        if self.server_eof_at is None:
            ev = self.log.add("server_eof", conn=self.cid)
            self.server_eof_at, self.server_eof_seq = ev["t"], ev["seq"]

    def _server_closed(self, exc: Optional[BaseException]) -> None:
        if self.env.tearing_down:
            return
        self._server_eof()
        if self.closed_at is None:
            ev = self.log.add("server_closed", conn=self.cid,
                              exc=type(exc).__name__ if exc else None)
            self.closed_at, self.closed_seq = ev["t"], ev["seq"]

    # -- driver API (synchronous effects; settle afterwards) -------------
    def send(self, data: bytes) -> None:
        self.log.add("csend", conn=self.cid, n=len(data))
        if not self.transport.feed(bytes(data)):
            self.sent_after_close += len(data)

    def eof(self) -> None:
        if not getattr(self, "client_eof", False):
            self.rx_at_client_eof = len(self.rx)
        self.client_eof = True
        self.log.add("ceof", conn=self.cid)
        self.transport.feed_eof()

    def reset(self, how: str = "reset") -> None:
        self.peer_lost = True
        self.log.add("creset", conn=self.cid)
        self.transport.peer_reset(how)

    def pause_reading(self, kernel_cap: int = 0) -> None:
        self.transport.client_accepting = False
        self.transport.kernel_cap = kernel_cap

    def resume_reading(self) -> None:
        self.transport.client_resumed()

    def accept_bytes(self, n: int) -> None:
        self.transport.client_accept_bytes(n)

    def fail_writes(self, after_n: int = 0, how: str = "pipe") -> None:
        self.peer_lost = True
        self.transport.fail_after = after_n
        self.transport.fail_how = how

    @property
    def server_gone(self) -> bool:
        return self.server_eof_at is not None

    @property
    def held_by_server(self) -> int:
        return len(self.transport._buffer) + len(self.transport.kernel)

    def received(self) -> bytes:
        return bytes(self.rx)

    def received_before_eof(self) -> bytes:
        """What the server had sent when the client half-closed: a response is owed without the
        client hanging up, so this is what response oracles look at."""
        n = getattr(self, "rx_at_client_eof", None)
        return bytes(self.rx if n is None else self.rx[:n])


class AioEnv:
    backend = "asyncio"

    def __init__(self, loop: VirtualLoop, cfg: Dict[str, Any], app: Any,
                 state: Optional[dict] = None, max_requests: Optional[int] = None) -> None:
        from hypercorn.asyncio.worker_context import WorkerContext

        self.loop = loop
        self.log = EventLog(loop.time)
        self.config = build_config(cfg, self.log)
        self.context = WorkerContext(max_requests)
        self.app = app
        self.state = state if state is not None else {}
        self.conns: List[AioConn] = []
        self.loop_errors: List[str] = []
        self.tearing_down = False
        loop.set_exception_handler(self._on_loop_error)

    def _on_loop_error(self, loop: Any, context: dict) -> None:
        msg = context.get("message", "")
        exc = context.get("exception")
        self.loop_errors.append(f"{msg}: {exc!r}")
        self.log.add("loop_error", message=msg, exc=type(exc).__name__ if exc else None)

    def now(self) -> float:
        return self.loop.time()

    def connect(self, alpn: Optional[str] = None, tls: bool = False,
                sock_kind: str = "inet") -> AioConn:
        c = AioConn(self, len(self.conns), alpn, tls, sock_kind)
        self.conns.append(c)
        return c

    async def settle0(self) -> None:
        await self.loop.run_until(self.loop.time())

    async def sleep(self, dt: float) -> str:
        target = self.loop.time() + dt
        r = await self.loop.run_until(target)
        if self.loop._vtime < target:  # quiescent before the horizon: time still passes
            self.loop._vtime = target
        self.check_injected()
        return r

    async def settle(self, horizon: float = 1e6) -> str:
        """Run until nothing is left to do or `horizon` virtual seconds have passed; the clock
        ends at the horizon either way (as it does on the trio back end)."""
        target = self.loop.time() + horizon
        r = await self.loop.run_until(target)
        if self.loop._vtime < target:
            self.loop._vtime = target
        self.check_injected()
        return r

    async def set_terminated(self) -> None:
        await self.context.terminated.set()

    def spawn_at(self, dt: float, passes: int, fn: Callable[[], Awaitable[Any]],
                 at_abs: Optional[float] = None) -> None:
        """Run `fn` inside the loop at now+dt, `passes` scheduler passes after its timer fires.

        `sleep`/`settle` act only once everything due at an instant has run; an action spawned
        here interleaves with the server's and the application's work of that same instant, which
        is how the race windows of a closure (a few passes wide) are reached on purpose."""
        async def runner() -> None:
            if at_abs is not None:  # an exact instant (e.g. the one a server timer fires at)
                fut = self.loop.create_future()
                self.loop.call_at(at_abs, fut.set_result, None)
                await fut
            else:
                await asyncio.sleep(dt)
            for _ in range(passes):
                await asyncio.sleep(0)
            await fn()

        task = self.loop.create_task(runner(), name="verif-inject")
        self._injected = getattr(self, "_injected", [])
        self._injected.append(task)

    def check_injected(self) -> None:
        for t in getattr(self, "_injected", []):
            if t.done() and not t.cancelled() and t.exception() is not None:
                raise t.exception()

    def alive_tasks(self) -> List[str]:
        cur = asyncio.current_task(self.loop)
        return sorted(t.get_name() + ":" + getattr(t.get_coro(), "__qualname__", "?")
                      for t in asyncio.all_tasks(self.loop) if t is not cur and not t.done()
                      and t.get_name() != "verif-inject")


def run_aio(scenario: Callable[[AioEnv], Awaitable[Any]], cfg: Dict[str, Any],
            app_factory: Callable[[Any], Any], state: Optional[dict] = None,
            max_requests: Optional[int] = None) -> Any:
    """Run `scenario(env)` on a fresh virtual loop; returns whatever the scenario returns.

    app_factory(env) builds the AppWrapper (it may capture env.log / env.now)."""
    loop = VirtualLoop()
    result: Dict[str, Any] = {}
    try:
        async def main() -> None:
            env = AioEnv(loop, cfg, None, state, max_requests)
            env.app = app_factory(env)
            result["env"] = env
            result["value"] = await scenario(env)
            result["alive"] = env.alive_tasks()
            env.tearing_down = True
            env.log.add("teardown")

        try:
            loop.run_until_complete(main())
        except SpinError as e:
            result["spin"] = str(e)
        finally:
            if "env" in result:
                result["env"].tearing_down = True
            _teardown(loop)
    finally:
        loop.close()
    return result


def _teardown(loop: VirtualLoop) -> None:
    tasks = [t for t in asyncio.all_tasks(loop) if not t.done()]
    if not tasks:
        return
    for t in tasks:
        t.cancel()

    async def drain() -> None:
        for _ in range(50):
            pend = [t for t in tasks if not t.done()]
            if not pend:
                return
            r = await loop.run_until(loop.time())
            for t in pend:
                if not t.done():
                    t.cancel()

    try:
        loop._waiter = None
        loop.run_until_complete(drain())
    except BaseException:
        pass
    for t in tasks:
        if not t.done():
            t._log_destroy_pending = False  # type: ignore
