"""trio back end: MockClock(autojump) + a hand-written half-closeable in-memory stream."""
from __future__ import annotations

from typing import Any, Awaitable, Callable, Dict, List, Optional

import trio
import trio.testing
from trio._util import ConflictDetector

from .common import TICKS, EventLog, build_config, make_socket_facts


class SimStream(trio.abc.HalfCloseableStream):
    """Server-side end. Semantics follow trio.SocketStream."""

    def __init__(self, conn: "TrioConn", sock_kind: str) -> None:
        self.conn = conn
        self.socket = make_socket_facts(sock_kind)
        self._in = bytearray()
        self._in_eof = False
        self._reset = False
        self._closed = False
        self._sent_eof = False
        self._wake_recv = trio.Event()
        self._wake_send = trio.Event()
        self._send_cd = ConflictDetector("another task is sending on this stream")
        self._recv_cd = ConflictDetector("another task is receiving on this stream")
        self.client_accepting = True
        self.kernel_cap = 0
        self.kernel = bytearray()
        self.pending = bytearray()  # bytes a blocked send_all still has to hand over
        self.fail_after: Optional[int] = None
        self.broken_write = False

    # -- server API -----------------------------------------------------
    async def receive_some(self, max_bytes: Optional[int] = None) -> bytes:
        if max_bytes is None:
            max_bytes = 65536
        with self._recv_cd:
            await trio.lowlevel.checkpoint()
            while True:
                if self._closed:
                    raise trio.ClosedResourceError("stream closed")
                if self._reset:
                    raise trio.BrokenResourceError("connection reset by peer")
                if self._in:
                    data = bytes(self._in[:max_bytes])
                    del self._in[:max_bytes]
                    return data
                if self._in_eof:
                    return b""
                self._wake_recv = trio.Event()
                await self._wake_recv.wait()

    async def send_all(self, data: Any) -> None:
        if self._sent_eof:
            raise trio.ClosedResourceError("can't send data after sending EOF")
        with self._send_cd:
            data = bytes(data)
            if not data:
                if self._closed:
                    raise trio.ClosedResourceError("socket was already closed")
                await trio.lowlevel.checkpoint()
                return
            await trio.lowlevel.checkpoint()
            if self._closed:
                raise trio.ClosedResourceError("stream closed")
            if self._reset or self.broken_write:
                raise trio.BrokenResourceError("connection lost")
            if self.fail_after is not None:
                if self.fail_after <= 0:
                    self.broken_write = True
                    raise trio.BrokenResourceError("broken pipe")
                self.fail_after -= 1
            self.conn.log.add("swrite", conn=self.conn.cid, n=len(data))
            self.pending += data
            try:
                while True:
                    if self.client_accepting:
                        if self.kernel:
                            self.conn._deliver(bytes(self.kernel))
                            self.kernel.clear()
                        self.conn._deliver(bytes(self.pending))
                        self.pending.clear()
                        return
                    room = self.kernel_cap - len(self.kernel)
                    if room > 0:
                        self.kernel += self.pending[:room]
                        del self.pending[:room]
                    if not self.pending:
                        return
                    self._wake_send = trio.Event()
                    await self._wake_send.wait()
                    if self._closed:
                        raise trio.ClosedResourceError("stream closed")
                    if self._reset or self.broken_write:
                        raise trio.BrokenResourceError("connection lost")
            finally:
                self.pending.clear()

    async def wait_send_all_might_not_block(self) -> None:
        await trio.lowlevel.checkpoint()

    async def send_eof(self) -> None:
        with self._send_cd:
            await trio.lowlevel.checkpoint()
            if self._sent_eof or self._closed:
                return
            if self._reset or self.broken_write:
                raise trio.BrokenResourceError("connection lost")
            self._sent_eof = True
            self.conn._server_eof()

    async def aclose(self) -> None:
        if not self._closed:
            self._closed = True
            self.conn._server_closed()
            self._wake_recv.set()
            self._wake_send.set()
        await trio.lowlevel.checkpoint()

    # -- client side (synchronous) -----------------------------------------
    def feed(self, data: bytes) -> bool:
        if self._closed or self._reset:
            return False
        self._in += data
        self._wake_recv.set()
        return True

    def feed_eof(self) -> None:
        self._in_eof = True
        self._wake_recv.set()

    def peer_reset(self) -> None:
        self._reset = True
        self._wake_recv.set()
        self._wake_send.set()

    def client_resumed(self) -> None:
        self.client_accepting = True
        if self.kernel and not self.pending:
            self.conn._deliver(bytes(self.kernel))
            self.kernel.clear()
        self._wake_send.set()

    def client_accept_bytes(self, n: int) -> None:
        take = bytes(self.kernel[:n])
        del self.kernel[:n]
        if take:
            self.conn._deliver(take)
        self._wake_send.set()


class SimTLSStream:
    """What hypercorn reads from a trio.SSLStream: handshake, ALPN and the transport's socket."""

    def __init__(self, inner: SimStream, alpn: Optional[str]) -> None:
        self.transport_stream = inner
        self._alpn = alpn

    async def do_handshake(self) -> None:
        await trio.lowlevel.checkpoint()

    def selected_alpn_protocol(self) -> Optional[str]:
        return self._alpn

    async def receive_some(self, max_bytes: Optional[int] = None) -> bytes:
        return await self.transport_stream.receive_some(max_bytes)

    async def send_all(self, data: Any) -> None:
        await self.transport_stream.send_all(data)

    async def aclose(self) -> None:
        await self.transport_stream.aclose()


class TrioConn:
    def __init__(self, env: "TrioEnv", cid: int, alpn: Optional[str], tls: bool,
                 sock_kind: str) -> None:
        self.env = env
        self.cid = cid
        self.log = env.log
        self.rx = bytearray()
        self.rx_marks: List[tuple] = []
        self.server_eof_at: Optional[float] = None
        self.server_eof_seq: Optional[int] = None
        self.closed_at: Optional[float] = None
        self.closed_seq: Optional[int] = None
        self.handler_done_at: Optional[float] = None
        self.handler_done_seq: Optional[int] = None
        self.handler_exc: Optional[BaseException] = None
        self.sent_after_close = 0
        self.peer_lost = False  # the client reset the connection / made writes fail
        self.stream = SimStream(self, sock_kind)
        self.server_stream: Any = SimTLSStream(self.stream, alpn) if tls else self.stream
        env.nursery.start_soon(self._run)

    async def _run(self) -> None:
        from hypercorn.trio.tcp_server import TCPServer

        try:
            await TCPServer(self.env.app, self.env.config, self.env.context, self.env.state,
                            self.server_stream)
        except BaseException as e:
            if isinstance(e, trio.Cancelled):
                raise
            self.handler_exc = e
            self.log.add("handler_exc", conn=self.cid, exc=type(e).__name__, msg=str(e)[:200])
        finally:
            if not self.env.tearing_down:
                self.handler_done_at = self.env.now()
                self.handler_done_seq = self.log.add("handler_done", conn=self.cid)["seq"]

    def _deliver(self, data: bytes) -> None:
        self.rx += data
        ev = self.log.add("rx", conn=self.cid, n=len(data), total=len(self.rx))
        self.rx_marks.append((ev["seq"], ev["t"], len(self.rx)))

    def _server_eof(self) -> None:
        if self.env.tearing_down:
            return
        if self.server_eof_at is None:
            ev = self.log.add("server_eof", conn=self.cid)
            self.server_eof_at, self.server_eof_seq = ev["t"], ev["seq"]

    def _server_closed(self) -> None:
        if self.env.tearing_down:
            return
        self._server_eof()
        if self.closed_at is None:
            ev = self.log.add("server_closed", conn=self.cid, exc=None)
            self.closed_at, self.closed_seq = ev["t"], ev["seq"]

    def send(self, data: bytes) -> None:
        self.log.add("csend", conn=self.cid, n=len(data))
        if not self.stream.feed(bytes(data)):
            self.sent_after_close += len(data)

    def eof(self) -> None:
        if not getattr(self, "client_eof", False):
            self.rx_at_client_eof = len(self.rx)
        self.client_eof = True
        self.log.add("ceof", conn=self.cid)
        self.stream.feed_eof()

    def reset(self, how: str = "reset") -> None:
        # (trio reports every such loss as BrokenResourceError: `how` matters on asyncio only)
        self.peer_lost = True
        self.log.add("creset", conn=self.cid)
        self.stream.peer_reset()

    def pause_reading(self, kernel_cap: int = 0) -> None:
        self.stream.client_accepting = False
        self.stream.kernel_cap = kernel_cap

    def resume_reading(self) -> None:
        self.stream.client_resumed()

    def accept_bytes(self, n: int) -> None:
        self.stream.client_accept_bytes(n)

    def fail_writes(self, after_n: int = 0, how: str = "pipe") -> None:
        self.peer_lost = True  # (trio reports every failed send as BrokenResourceError)
        self.stream.fail_after = after_n

    @property
    def server_gone(self) -> bool:
        return self.server_eof_at is not None

    @property
    def held_by_server(self) -> int:
        return len(self.stream.pending) + len(self.stream.kernel)

    def received(self) -> bytes:
        return bytes(self.rx)

    def received_before_eof(self) -> bytes:
        """What the server had sent when the client half-closed: a response is owed without the
        client hanging up, so this is what response oracles look at."""
        n = getattr(self, "rx_at_client_eof", None)
        return bytes(self.rx if n is None else self.rx[:n])


class TrioEnv:
    backend = "trio"

    def __init__(self, nursery: trio.Nursery, cfg: Dict[str, Any], state: Optional[dict],
                 max_requests: Optional[int]) -> None:
        from hypercorn.trio.worker_context import WorkerContext

        self.nursery = nursery
        self.log = EventLog(trio.current_time)
        self.config = build_config(cfg, self.log)
        self.context = WorkerContext(max_requests)
        self.app: Any = None
        self.state = state if state is not None else {}
        self.conns: List[TrioConn] = []
        self.loop_errors: List[str] = []
        self.tearing_down = False

    def now(self) -> float:
        return trio.current_time()

    def connect(self, alpn: Optional[str] = None, tls: bool = False,
                sock_kind: str = "inet") -> TrioConn:
        c = TrioConn(self, len(self.conns), alpn, tls, sock_kind)
        self.conns.append(c)
        return c

    async def settle0(self) -> None:
        await trio.testing.wait_all_tasks_blocked()

    async def sleep(self, dt: float) -> str:
        await trio.sleep(dt)
        await trio.testing.wait_all_tasks_blocked()
        return "horizon"

    async def settle(self, horizon: float = 1e6) -> str:
        await trio.sleep(horizon)
        await trio.testing.wait_all_tasks_blocked()
        return "horizon"

    async def set_terminated(self) -> None:
        await self.context.terminated.set()

    def spawn_at(self, dt: float, passes: int, fn: Callable[[], Awaitable[Any]],
                 at_abs: Optional[float] = None) -> None:
        """See AioEnv.spawn_at: an action that interleaves with the work of its instant."""
        deadline = trio.current_time() + dt if at_abs is None else at_abs

        async def runner() -> None:
            await trio.sleep_until(deadline)
            for _ in range(passes):
                await trio.lowlevel.checkpoint()
            await fn()

        self.nursery.start_soon(runner)

    def check_injected(self) -> None:
        pass  # an exception in an injected action propagates through the nursery

    def alive_tasks(self) -> List[str]:
        return [f"conn-{c.cid}" for c in self.conns if c.handler_done_at is None]


def pin_scheduler(seed: int) -> None:
    """trio deliberately randomises the order of runnable tasks each tick; pin it so that a case
    is a pure function of its JSON (the seed is part of the generated case = the schedule)."""
    import trio._core._run as tr

    tr._ALLOW_DETERMINISTIC_SCHEDULING = True  # type: ignore
    tr._r.seed(seed)


class SpinWatch(trio.abc.Instrument):
    """Counts task steps taken without virtual time moving: a task that spins through
    checkpoints would otherwise keep the autojump clock from ever advancing."""

    LIMIT = 1_500_000

    def __init__(self) -> None:
        self.steps = 0
        self.at = -1.0
        self.scope: Optional[trio.CancelScope] = None
        self.tripped: Optional[str] = None
        self.idle_polls = 0
        self.on_stuck: Optional[Callable[[], None]] = None

    def before_io_wait(self, timeout: float) -> None:
        # With the autojump clock a task that sits in a *shielded* wait past an expired deadline
        # makes the run loop poll with a zero timeout for ever (in real time it would simply
        # hang): no task steps, no progress of the clock.
        TICKS[0] += 1
        if timeout == 0:
            self.idle_polls += 1
            if self.idle_polls > 300_000 and self.tripped is None:
                self.tripped = (f"nothing runnable at virtual time {trio.current_time()} although "
                                f"a deadline has expired: a cancellation cannot be delivered "
                                f"(shielded wait)")
                if self.on_stuck is not None:
                    self.on_stuck()
                if self.scope is not None:
                    self.scope.cancel()
        else:
            self.idle_polls = 0

    def before_task_step(self, task: Any) -> None:
        TICKS[0] += 1
        self.idle_polls = 0
        now = trio.current_time()
        if now != self.at:
            self.at = now
            self.steps = 0
        self.steps += 1
        if self.steps > self.LIMIT and self.tripped is None:
            self.tripped = (f"{self.steps} task steps at virtual time {now} "
                            f"(last task {task.name})")
            if self.scope is not None:
                self.scope.cancel()


def run_trio(scenario: Callable[[TrioEnv], Awaitable[Any]], cfg: Dict[str, Any],
             app_factory: Callable[[Any], Any], state: Optional[dict] = None,
             max_requests: Optional[int] = None, sched: int = 0) -> Any:
    result: Dict[str, Any] = {}
    pin_scheduler(sched)

    watch = SpinWatch()

    async def main() -> None:
        async with trio.open_nursery() as nursery:
            watch.scope = nursery.cancel_scope
            env = TrioEnv(nursery, cfg, state, max_requests)
            env.app = app_factory(env)
            result["env"] = env
            try:
                result["value"] = await scenario(env)
                result["alive"] = env.alive_tasks()
            finally:
                env.tearing_down = True
                env.log.add("teardown")
                for c in env.conns:  # release anything parked on the fake wire
                    c.stream.peer_reset()
                nursery.cancel_scope.cancel()

    try:
        trio.run(main, clock=trio.testing.MockClock(autojump_threshold=0), instruments=[watch])
        if watch.tripped:
            result["spin"] = watch.tripped
    except BaseExceptionGroup as group:
        # an exception raised by the scenario (e.g. an oracle's Violation) arrives wrapped by
        # the nursery: hand the single underlying exception on
        leaf: BaseException = group
        while isinstance(leaf, BaseExceptionGroup) and len(leaf.exceptions) == 1:
            leaf = leaf.exceptions[0]
        if leaf is group:
            raise
        raise leaf
    return result
