"""Server-level harness: hypercorn.asyncio.serve / hypercorn.trio.serve over a unix socket,
clients in the same event loop, virtual time."""
from __future__ import annotations

import os
import shutil
import tempfile
from typing import Any, Awaitable, Callable, Dict, List, Optional

from .apps import ScriptedApp
from .common import EventLog, SpinError, build_config

WORK = os.path.join(os.path.dirname(os.path.dirname(os.path.abspath(__file__))), ".work")


class SClient:
    def __init__(self, cid: int, log: EventLog) -> None:
        self.cid = cid
        self.log = log
        self.rx = bytearray()
        self.eof_at: Optional[float] = None
        self.error: Optional[str] = None
        self.refused = False
        self.connected_at: Optional[float] = None
        self._send: Any = None
        self._close: Any = None

    def send(self, data: bytes) -> None:
        self.log.add("csend", conn=self.cid, n=len(data))
        if self._send is not None:  # (a refused connection: the checks judge `refused`)
            self._send(data)

    def close(self) -> None:
        self.log.add("cclose", conn=self.cid)
        if self._close is not None:
            self._close()

    def received(self) -> bytes:
        return bytes(self.rx)

    @property
    def server_gone(self) -> bool:
        return self.eof_at is not None


class ServeResult:
    def __init__(self) -> None:
        self.backend = ""
        self.log: Any = None
        self.app: Optional[ScriptedApp] = None
        self.value: Any = None
        self.serve_returned_at: Optional[float] = None
        self.serve_exc: Optional[BaseException] = None
        self.spin: Optional[str] = None
        self.clients: List[SClient] = []

    @property
    def instances(self) -> list:
        return self.app.instances if self.app else []


# --------------------------------------------------------------------------- asyncio


def run_serve_aio(cfg: Dict[str, Any], programs: Dict[str, list],
                  scenario: Callable[[Any], Awaitable[Any]]) -> ServeResult:
    import asyncio

    from .aio import VirtualLoop, _teardown

    res = ServeResult()
    res.backend = "asyncio"
    os.makedirs(WORK, exist_ok=True)
    tmp = tempfile.mkdtemp(prefix="srv-", dir=WORK)
    path = os.path.join(tmp, "s.sock")
    loop = VirtualLoop()
    asyncio.set_event_loop(loop)
    loop_errors: List[str] = []
    loop.set_exception_handler(
        lambda lp, ctx: loop_errors.append(f"{ctx.get('message')}: {ctx.get('exception')!r}"))
    res.loop_errors = loop_errors  # type: ignore

    class Env:
        backend = "asyncio"

        def __init__(self) -> None:
            self.log = EventLog(loop.time)
            self.tearing_down = False
            self.trigger = asyncio.Event()
            self.config = build_config(dict(cfg, bind=["unix:" + path, "unix:" + path + "2"]),
                                       self.log)
            self.app = ScriptedApp(programs, self)
            self.serve_task: Any = None
            self.readers: List[Any] = []

        def now(self) -> float:
            return loop.time()

        async def settle0(self) -> None:
            await loop.run_until(loop.time())

        async def sleep(self, dt: float) -> None:
            target = loop.time() + dt
            await loop.run_until(target)
            if loop._vtime < target:
                loop._vtime = target

        async def settle(self, horizon: float = 1e6) -> str:
            target = loop.time() + horizon
            r = await loop.run_until(target)
            if loop._vtime < target:
                loop._vtime = target
            return r

        def start_server(self, callable_trigger: bool = True) -> None:
            from hypercorn.asyncio import serve

            async def run() -> None:
                try:
                    await serve(self.app, self.config,
                                shutdown_trigger=self.trigger.wait if callable_trigger else None)
                except asyncio.CancelledError as e:
                    # nobody cancels this task before teardown: a cancellation seen here came
                    # out of serve() itself
                    if self.tearing_down:
                        raise
                    res.serve_exc = e
                    self.log.add("serve_raised", exc=type(e).__name__, msg=str(e)[:200])
                except BaseException as e:
                    if not self.tearing_down:
                        res.serve_exc = e
                        self.log.add("serve_raised", exc=type(e).__name__, msg=str(e)[:200])
                finally:
                    if not self.tearing_down:
                        res.serve_returned_at = loop.time()
                        self.log.add("serve_returned")

            self.serve_task = loop.create_task(run(), name="serve")

        def trigger_shutdown(self) -> None:
            self.log.add("shutdown_triggered")
            self.trigger.set()

        async def connect(self, read: bool = True, which: int = 0) -> SClient:
            """read=False: a client that never reads what the server sends it; which: the
            listening socket (the server is bound to two)."""
            c = SClient(len(res.clients), self.log)
            res.clients.append(c)
            try:
                reader, writer = await asyncio.open_unix_connection(path + ("2" if which else ""))
            except (ConnectionRefusedError, FileNotFoundError, OSError) as e:
                c.refused = True
                c.error = type(e).__name__
                self.log.add("connect_refused", conn=c.cid)
                return c
            c.connected_at = loop.time()
            self.log.add("connected", conn=c.cid)
            c._send = writer.write
            c._close = writer.close

            async def pump() -> None:
                try:
                    while True:
                        data = await reader.read(65536)
                        if not data:
                            break
                        c.rx += data
                        self.log.add("rx", conn=c.cid, n=len(data), total=len(c.rx))
                except (ConnectionError, OSError) as e:
                    c.error = type(e).__name__
                if not self.tearing_down:
                    c.eof_at = loop.time()
                    self.log.add("server_eof", conn=c.cid)

            if read:
                self.readers.append(loop.create_task(pump(), name=f"client-{c.cid}"))
            else:
                c._keep = (reader, writer)  # keeps the socket open, unread
            return c

    try:
        async def main() -> None:
            env = Env()
            res.config = env.config  # the user's Config object, as the worker leaves it
            res.log = env.log
            res.app = env.app
            try:
                res.value = await scenario(env)
            finally:
                env.tearing_down = True
                env.log.add("teardown")

        try:
            import warnings

            with warnings.catch_warnings():
                warnings.simplefilter("ignore")
                loop.run_until_complete(main())
        except SpinError as e:
            res.spin = str(e)
        finally:
            _teardown(loop)
    finally:
        try:
            loop.run_until_complete(loop.shutdown_asyncgens())
        except BaseException:
            pass
        loop.close()
        asyncio.set_event_loop(None)
        shutil.rmtree(tmp, ignore_errors=True)
    return res


# --------------------------------------------------------------------------- trio


def run_serve_trio(cfg: Dict[str, Any], programs: Dict[str, list],
                   scenario: Callable[[Any], Awaitable[Any]], sched: int = 0) -> ServeResult:
    import trio
    import trio.testing

    from .trio_ import SpinWatch, pin_scheduler

    res = ServeResult()
    res.backend = "trio"
    os.makedirs(WORK, exist_ok=True)
    tmp = tempfile.mkdtemp(prefix="srv-", dir=WORK)
    path = os.path.join(tmp, "s.sock")
    pin_scheduler(sched)
    watch = SpinWatch()
    socks: List[Any] = []

    def unblock() -> None:  # lets a server stuck in a write to a silent client fail and finish
        for sk in socks:
            try:
                sk.close()
            except OSError:
                pass

    watch.on_stuck = unblock

    class Env:
        backend = "trio"

        def __init__(self, nursery: Any) -> None:
            self.nursery = nursery
            self.log = EventLog(trio.current_time)
            self.tearing_down = False
            self.trigger = trio.Event()
            self.config = build_config(dict(cfg, bind=["unix:" + path, "unix:" + path + "2"]),
                                       self.log)
            self.app = ScriptedApp(programs, self)

        def now(self) -> float:
            return trio.current_time()

        async def settle0(self) -> None:
            await trio.testing.wait_all_tasks_blocked()

        async def sleep(self, dt: float) -> None:
            await trio.sleep(dt)
            await trio.testing.wait_all_tasks_blocked()

        async def settle(self, horizon: float = 1e6) -> str:
            await trio.sleep(horizon)
            await trio.testing.wait_all_tasks_blocked()
            return "horizon"

        def start_server(self, callable_trigger: bool = True) -> None:
            from hypercorn.trio import serve

            async def run() -> None:
                try:
                    await serve(self.app, self.config,
                                shutdown_trigger=self.trigger.wait if callable_trigger else None)
                except trio.Cancelled:
                    raise
                except BaseException as e:
                    if not self.tearing_down:
                        res.serve_exc = e
                        self.log.add("serve_raised", exc=type(e).__name__, msg=str(e)[:200])
                finally:
                    if not self.tearing_down:
                        res.serve_returned_at = trio.current_time()
                        self.log.add("serve_returned")

            self.nursery.start_soon(run)

        def trigger_shutdown(self) -> None:
            self.log.add("shutdown_triggered")
            self.trigger.set()

        async def connect(self, read: bool = True, which: int = 0) -> SClient:
            c = SClient(len(res.clients), self.log)
            res.clients.append(c)
            try:
                stream = await trio.open_unix_socket(path + ("2" if which else ""))
            except OSError as e:
                c.refused = True
                c.error = type(e).__name__
                self.log.add("connect_refused", conn=c.cid)
                return c
            c.connected_at = trio.current_time()
            self.log.add("connected", conn=c.cid)
            socks.append(stream.socket)
            pending: List[bytes] = []
            wake = trio.Event()
            state = {"closing": False}

            def send(data: bytes) -> None:
                pending.append(bytes(data))
                wake.set()

            def close() -> None:
                state["closing"] = True
                wake.set()

            c._send, c._close = send, close

            async def writer() -> None:
                nonlocal wake
                try:
                    while True:
                        while pending:
                            await stream.send_all(pending.pop(0))
                        if state["closing"]:
                            await stream.aclose()
                            return
                        wake = trio.Event()
                        if pending or state["closing"]:
                            continue
                        await wake.wait()
                except (trio.BrokenResourceError, trio.ClosedResourceError):
                    pass

            async def pump() -> None:
                try:
                    while True:
                        data = await stream.receive_some(65536)
                        if not data:
                            break
                        c.rx += data
                        self.log.add("rx", conn=c.cid, n=len(data), total=len(c.rx))
                except (trio.BrokenResourceError, trio.ClosedResourceError) as e:
                    c.error = type(e).__name__
                if not self.tearing_down:
                    c.eof_at = trio.current_time()
                    self.log.add("server_eof", conn=c.cid)

            self.nursery.start_soon(writer)
            if read:
                self.nursery.start_soon(pump)
            await trio.testing.wait_all_tasks_blocked()
            return c

    async def main() -> None:
        async with trio.open_nursery() as nursery:
            watch.scope = nursery.cancel_scope
            env = Env(nursery)
            res.config = env.config  # the user's Config object, as the worker leaves it
            res.log = env.log
            res.app = env.app
            try:
                res.value = await scenario(env)
            finally:
                env.tearing_down = True
                env.log.add("teardown")
                nursery.cancel_scope.cancel()

    try:
        try:
            trio.run(main, clock=trio.testing.MockClock(autojump_threshold=0),
                     instruments=[watch])
            if watch.tripped:
                res.spin = watch.tripped
        except BaseExceptionGroup as group:
            leaf: BaseException = group
            while isinstance(leaf, BaseExceptionGroup) and len(leaf.exceptions) == 1:
                leaf = leaf.exceptions[0]
            if leaf is group:
                raise
            raise leaf
    finally:
        shutil.rmtree(tmp, ignore_errors=True)
    return res


def run_serve(backend: str, cfg: Dict[str, Any], programs: Dict[str, list],
              scenario: Callable[[Any], Awaitable[Any]], sched: int = 0) -> ServeResult:
    if backend == "asyncio":
        return run_serve_aio(cfg, programs, scenario)
    return run_serve_trio(cfg, programs, scenario, sched)
