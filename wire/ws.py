"""Own RFC 6455 client-side encoder (handshake, masking, fragmentation, permessage-deflate)
and decoders for what the server sends (own frame parser + wsproto client as second view)."""
from __future__ import annotations

import base64
import hashlib
import struct
import zlib
from typing import Any, Dict, List, Optional, Tuple

GUID = b"258EAFA5-E914-47DA-95CA-C5AB0DC85B11"
OP_CONT, OP_TEXT, OP_BIN, OP_CLOSE, OP_PING, OP_PONG = 0, 1, 2, 8, 9, 10


def accept_token(key: bytes) -> bytes:
    return base64.b64encode(hashlib.sha1(key + GUID).digest())


def make_key(seed: int) -> bytes:
    return base64.b64encode(bytes((seed * 31 + i * 7) % 256 for i in range(16)))


def handshake_request(path: str = "/ws", key: Optional[bytes] = None, version: Optional[str] = "13",
                      headers: Optional[List[List[str]]] = None, method: str = "GET",
                      http_version: str = "1.1", upgrade: Optional[str] = "websocket",
                      connection: Optional[str] = "Upgrade",
                      subprotocols: Optional[str] = None, extensions: Optional[str] = None,
                      host: str = "example.com") -> bytes:
    lines = [f"{method} {path} HTTP/{http_version}", f"Host: {host}"]
    if upgrade is not None:
        lines.append(f"Upgrade: {upgrade}")
    if connection is not None:
        lines.append(f"Connection: {connection}")
    if key is not None:
        lines.append("Sec-WebSocket-Key: " + key.decode("latin-1"))
    if version is not None:
        lines.append(f"Sec-WebSocket-Version: {version}")
    if subprotocols is not None:
        lines.append(f"Sec-WebSocket-Protocol: {subprotocols}")
    if extensions is not None:
        lines.append(f"Sec-WebSocket-Extensions: {extensions}")
    for n, v in headers or []:
        lines.append(f"{n}: {v}")
    return ("\r\n".join(lines) + "\r\n\r\n").encode("latin-1")


def encode_frame(opcode: int, payload: bytes, fin: bool = True, mask: Optional[bytes] = b"\x11\x22\x33\x44",
                 rsv1: bool = False) -> bytes:
    b0 = (0x80 if fin else 0) | (0x40 if rsv1 else 0) | opcode
    n = len(payload)
    mbit = 0x80 if mask is not None else 0
    if n < 126:
        head = struct.pack("!BB", b0, mbit | n)
    elif n < 65536:
        head = struct.pack("!BBH", b0, mbit | 126, n)
    else:
        head = struct.pack("!BBQ", b0, mbit | 127, n)
    if mask is None:
        return head + payload
    masked = bytes(b ^ mask[i % 4] for i, b in enumerate(payload)) if n < 4096 else _mask_big(
        payload, mask)
    return head + mask + masked


def _mask_big(payload: bytes, mask: bytes) -> bytes:
    n = len(payload)
    key = (mask * (n // 4 + 1))[:n]
    return (int.from_bytes(payload, "big") ^ int.from_bytes(key, "big")).to_bytes(n, "big")


def deflate_message(payload: bytes) -> bytes:
    c = zlib.compressobj(wbits=-15)
    out = c.compress(payload) + c.flush(zlib.Z_SYNC_FLUSH)
    assert out.endswith(b"\x00\x00\xff\xff")
    return out[:-4]


def message_frames(kind: str, payload: bytes, cuts: List[int], compress: bool = False,
                   mask_seed: int = 0) -> List[bytes]:
    """Frames of one message, fragmented at `cuts` (byte offsets into the on-wire payload)."""
    data = deflate_message(payload) if compress else payload
    n = len(data)
    points = sorted({c % (n + 1) for c in cuts} - {0, n}) if n else []
    pieces = []
    prev = 0
    for p in points:
        pieces.append(data[prev:p])
        prev = p
    pieces.append(data[prev:])
    frames = []
    for i, piece in enumerate(pieces):
        opcode = (OP_TEXT if kind == "text" else OP_BIN) if i == 0 else OP_CONT
        mask = bytes(((mask_seed + i) * 37 + j * 11) % 256 for j in range(4))
        frames.append(encode_frame(opcode, piece, fin=(i == len(pieces) - 1), mask=mask,
                                   rsv1=(compress and i == 0)))
    return frames


def close_frame(code: Optional[int] = 1000, reason: bytes = b"") -> bytes:
    payload = b"" if code is None else struct.pack("!H", code) + reason
    return encode_frame(OP_CLOSE, payload)


def ping_frame(payload: bytes) -> bytes:
    return encode_frame(OP_PING, payload)


# --------------------------------------------------------------------------- server -> client


def parse_server_frames(data: bytes) -> Tuple[List[Dict[str, Any]], int, Optional[str]]:
    """Own parser of unmasked server frames. Returns (frames, consumed, error)."""
    out: List[Dict[str, Any]] = []
    pos = 0
    while pos + 2 <= len(data):
        b0, b1 = data[pos], data[pos + 1]
        if b1 & 0x80:
            return out, pos, "server frame is masked"
        n = b1 & 0x7F
        hp = pos + 2
        if n == 126:
            if hp + 2 > len(data):
                break
            n = struct.unpack("!H", data[hp:hp + 2])[0]
            hp += 2
        elif n == 127:
            if hp + 8 > len(data):
                break
            n = struct.unpack("!Q", data[hp:hp + 8])[0]
            hp += 8
        if hp + n > len(data):
            break
        op = b0 & 0x0F
        if op not in (0, 1, 2, 8, 9, 10):
            return out, pos, f"unknown opcode {op}"
        if b0 & 0x30:
            return out, pos, "RSV2/3 set"
        out.append({"fin": bool(b0 & 0x80), "rsv1": bool(b0 & 0x40), "opcode": op,
                    "payload": data[hp:hp + n], "offset": pos})
        pos = hp + n
    return out, pos, None


def assemble_messages(frames: List[Dict[str, Any]]) -> Tuple[List[Dict[str, Any]], Optional[str]]:
    """Reassemble data messages / control frames in order (with inflate when RSV1)."""
    out: List[Dict[str, Any]] = []
    cur: Optional[Dict[str, Any]] = None
    inflater = zlib.decompressobj(wbits=-15)
    for f in frames:
        op = f["opcode"]
        if op >= 8:
            if not f["fin"] or len(f["payload"]) > 125:
                return out, "bad control frame"
            if op == OP_CLOSE:
                p = f["payload"]
                code = struct.unpack("!H", p[:2])[0] if len(p) >= 2 else None
                out.append({"kind": "close", "code": code, "reason": p[2:]})
            else:
                out.append({"kind": "ping" if op == OP_PING else "pong", "payload": f["payload"]})
            continue
        if op in (OP_TEXT, OP_BIN):
            if cur is not None:
                return out, "new message before the previous one finished"
            cur = {"kind": "text" if op == OP_TEXT else "binary", "data": bytearray(),
                   "compressed": f["rsv1"]}
        else:
            if cur is None:
                return out, "continuation without a message"
            if f["rsv1"]:
                return out, "RSV1 on a continuation frame"
        cur["data"] += f["payload"]
        if f["fin"]:
            data = bytes(cur["data"])
            if cur["compressed"]:
                try:
                    data = inflater.decompress(data + b"\x00\x00\xff\xff")
                except zlib.error as e:
                    return out, f"inflate failed: {e}"
            if cur["kind"] == "text":
                try:
                    out.append({"kind": "text", "data": data.decode("utf-8")})
                except UnicodeDecodeError:
                    return out, "text message is not UTF-8"
            else:
                out.append({"kind": "binary", "data": data})
            cur = None
    return out, None
