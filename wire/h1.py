"""Own HTTP/1 request encoder and strict response parser (no h11 involved)."""
from __future__ import annotations

import re
from typing import Any, Dict, List, Optional, Tuple


def s2b(s: str) -> bytes:
    return s.encode("latin-1")


def b2s(b: bytes) -> str:
    return bytes(b).decode("latin-1")


# --------------------------------------------------------------------------- requests


def _with_framing(req: Dict[str, Any], body_len: int) -> List[list]:
    """The header list as sent: the framing header sits at `framing_pos` (default: last)."""
    hdrs = [list(h) for h in req.get("headers", [])]
    framing = req.get("framing", "none")
    extra = None
    if framing == "cl":
        extra = ["content-length", str(body_len)]
    elif framing == "chunked":
        extra = ["transfer-encoding", "chunked"]
    if extra is not None:
        pos = req.get("framing_pos")
        pos = len(hdrs) if pos is None else min(max(int(pos), 0), len(hdrs))
        hdrs.insert(pos, extra)
    return hdrs


def encode_request(req: Dict[str, Any]) -> bytes:
    """req: method, path (raw, percent-encoded, latin-1 str), query (None or str), version,
    headers [[name, value] or [name, value, ows_before, ows_after]], framing none|cl|chunked,
    body (latin-1 str), chunks (list of sizes for chunked), chunk_ext (bool), trailers."""
    target = req["path"] + ("?" + req["query"] if req.get("query") is not None else "")
    out = [s2b(f"{req['method']} {target} HTTP/{req.get('version', '1.1')}\r\n")]
    body = s2b(req.get("body", ""))
    framing = req.get("framing", "none")
    for h in _with_framing(req, len(body)):
        name, value = h[0], h[1]
        ows_b = h[2] if len(h) > 2 else " "
        ows_a = h[3] if len(h) > 3 else ""
        out.append(s2b(f"{name}:{ows_b}{value}{ows_a}\r\n"))
    out.append(b"\r\n")
    if framing == "cl":
        out.append(body)
    elif framing == "chunked":
        pos = 0
        sizes = [n for n in req.get("chunks", []) if n > 0]
        i = 0
        while pos < len(body):
            n = sizes[i] if i < len(sizes) else len(body) - pos
            n = min(n, len(body) - pos)
            i += 1
            ext = ";ext=1" if req.get("chunk_ext") and i % 2 == 0 else ""
            out.append(s2b(f"{n:x}{ext}\r\n") + body[pos:pos + n] + b"\r\n")
            pos += n
        out.append(b"0\r\n")
        for name, value in req.get("trailers", []):
            out.append(s2b(f"{name}: {value}\r\n"))
        out.append(b"\r\n")
    return b"".join(out)


_HEX = "0123456789abcdefABCDEF"


def percent_decode(raw: str) -> bytes:
    """RFC 3986 percent-decoding of a latin-1 str into bytes (own implementation)."""
    out = bytearray()
    i = 0
    while i < len(raw):
        c = raw[i]
        if c == "%" and len(raw) - i >= 3 and raw[i + 1] in _HEX and raw[i + 2] in _HEX:
            out.append(int(raw[i + 1:i + 3], 16))
            i += 3
        else:
            out.append(ord(c))
            i += 1
    return bytes(out)


def expected_http_scope(req: Dict[str, Any], raw_headers: bool = False) -> Dict[str, Any]:
    hdrs = []
    body = s2b(req.get("body", ""))
    for h in _with_framing(req, len(body)):
        name = s2b(h[0]) if raw_headers else s2b(h[0]).lower()
        hdrs.append((name, s2b(h[1]).strip(b" \t")))
    return {
        "type": "http",
        "method": req["method"].upper(),
        "path": percent_decode(req["path"]).decode("utf-8"),
        "raw_path": s2b(req["path"]),
        "query_string": s2b(req["query"]) if req.get("query") is not None else b"",
        "headers": hdrs,
        "http_version": req.get("version", "1.1"),
    }


# --------------------------------------------------------------------------- responses

_STATUS_RE = re.compile(rb"HTTP/(1\.[01]) ([0-9]{3})(?: ([^\r\n]*))?\Z")
_TOKEN_RE = re.compile(rb"[!#$%&'*+\-.^_`|~0-9A-Za-z]+\Z")


class Resp:
    __slots__ = ("status", "version", "reason", "headers", "body", "interim", "complete",
                 "framing", "start", "end", "malformed", "trailers", "head_end")

    def __init__(self) -> None:
        self.status = 0
        self.version = ""
        self.reason = b""
        self.headers: List[Tuple[bytes, bytes]] = []
        self.body = b""
        self.interim: List["Resp"] = []
        self.complete = False
        self.framing = ""
        self.start = 0
        self.end = 0
        self.head_end = 0
        self.malformed: Optional[str] = None
        self.trailers: List[Tuple[bytes, bytes]] = []

    def header(self, name: bytes) -> List[bytes]:
        return [v for n, v in self.headers if n == name]

    def to_json(self) -> dict:
        return {"status": self.status, "headers": [[b2s(n), b2s(v)] for n, v in self.headers],
                "body_len": len(self.body), "complete": self.complete, "framing": self.framing,
                "malformed": self.malformed, "interim": [r.status for r in self.interim]}


def _parse_head(data: bytes, pos: int) -> Tuple[Optional[Resp], int, Optional[str]]:
    """Returns (resp, new_pos, error). resp None and error None => need more data."""
    end = data.find(b"\r\n\r\n", pos)
    if end < 0:
        # a bare LF or garbage before a full head cannot be judged until the end of input
        return None, pos, None
    lines = data[pos:end].split(b"\r\n")
    m = _STATUS_RE.match(lines[0])
    if not m:
        return None, pos, f"bad status line {lines[0][:80]!r}"
    r = Resp()
    r.start = pos
    r.version = m.group(1).decode()
    r.status = int(m.group(2))
    r.reason = m.group(3) or b""
    for line in lines[1:]:
        name, sep, value = line.partition(b":")
        if not sep or not _TOKEN_RE.match(name):
            return None, pos, f"bad header line {line[:80]!r}"
        value = value.strip(b" \t")
        if b"\r" in value or b"\n" in value or b"\x00" in value:
            return None, pos, f"control character in header value {line[:80]!r}"
        r.headers.append((name.lower(), value))
    r.head_end = end + 4
    return r, end + 4, None


def parse_responses(
    data: bytes, methods: List[str], closed: bool
) -> Tuple[List[Resp], bytes, Optional[str]]:
    """Parse the server's byte stream against the list of request methods (in order).

    Returns (responses, leftover, error). A response with complete=False is truncated.
    `closed` says whether the server closed the connection after `data` (needed for
    bodies delimited by connection close). After a 101 the rest is returned as leftover.
    """
    out: List[Resp] = []
    pos = 0
    idx = 0
    interim: List[Resp] = []
    while pos < len(data):
        r, npos, err = _parse_head(data, pos)
        if err:
            return out, data[pos:], err
        if r is None:
            t = Resp()
            t.start = pos
            t.complete = False
            t.framing = "head"
            t.malformed = None
            t.interim = interim
            out.append(t)
            return out, data[pos:], None
        method = methods[idx] if idx < len(methods) else "GET"
        pos = npos
        if 100 <= r.status < 200 and r.status != 101:
            r.complete = True
            r.end = pos
            interim.append(r)
            continue
        r.interim = interim
        interim = []
        idx += 1
        out.append(r)
        if r.status == 101:
            r.complete = True
            r.framing = "upgrade"
            r.end = pos
            return out, data[pos:], None
        te = [v.lower() for v in r.header(b"transfer-encoding")]
        cl = r.header(b"content-length")
        if method == "HEAD" or r.status in (204, 304):
            r.framing = "none"
            r.complete = True
            r.end = pos
            continue
        if te and te[-1].split(b",")[-1].strip() == b"chunked":
            r.framing = "chunked"
            body = bytearray()
            while True:
                eol = data.find(b"\r\n", pos)
                if eol < 0:
                    r.body = bytes(body)
                    return out, b"", None
                size_s = data[pos:eol].split(b";")[0].strip()
                if not re.fullmatch(rb"[0-9a-fA-F]+", size_s):
                    return out, data[pos:], f"bad chunk size {data[pos:eol][:40]!r}"
                size = int(size_s, 16)
                pos = eol + 2
                if size == 0:
                    # trailers then empty line
                    while True:
                        eol = data.find(b"\r\n", pos)
                        if eol < 0:
                            r.body = bytes(body)
                            return out, b"", None
                        line = data[pos:eol]
                        pos = eol + 2
                        if line == b"":
                            break
                        n, sep, v = line.partition(b":")
                        if not sep:
                            return out, data[pos:], f"bad trailer {line[:40]!r}"
                        r.trailers.append((n.lower(), v.strip()))
                    r.complete = True
                    break
                if len(data) < pos + size + 2:
                    body += data[pos:pos + size]
                    r.body = bytes(body)
                    return out, b"", None
                body += data[pos:pos + size]
                if data[pos + size:pos + size + 2] != b"\r\n":
                    return out, data[pos:], "chunk not terminated by CRLF"
                pos += size + 2
            r.body = bytes(body)
            r.end = pos
            continue
        if cl:
            if len(set(cl)) != 1 or not re.fullmatch(rb"[0-9]+", cl[0]):
                return out, data[pos:], f"bad content-length {cl!r}"
            n = int(cl[0])
            r.framing = "cl"
            r.body = data[pos:pos + n]
            if len(r.body) < n:
                return out, b"", None
            r.complete = True
            pos += n
            r.end = pos
            continue
        r.framing = "close"
        r.body = data[pos:]
        r.complete = closed
        pos = len(data)
        r.end = pos
    return out, b"", None


def h11_client_view(data: bytes, methods: List[str], closed: bool) -> List[dict]:
    """Second opinion: parse the same bytes with the h11 *client* state machine."""
    import h11

    out: List[dict] = []
    conn = h11.Connection(h11.CLIENT)
    pos = 0
    fed = False
    for method in methods:
        try:
            conn.send(h11.Request(method=method, target="/", headers=[("host", "x")]))
            conn.send(h11.EndOfMessage())
        except h11.LocalProtocolError:
            break
        if not fed:
            conn.receive_data(data)
            if closed:
                conn.receive_data(b"")
            fed = True
        cur: Optional[dict] = None
        while True:
            try:
                ev = conn.next_event()
            except h11.RemoteProtocolError as e:
                out.append({"error": str(e)})
                return out
            if ev is h11.NEED_DATA or ev is h11.PAUSED:
                if cur is not None:
                    out.append(cur)
                return out
            if isinstance(ev, h11.InformationalResponse):
                if ev.status_code == 101:
                    out.append({"status": 101, "body": b"", "complete": True})
                    return out
                continue
            if isinstance(ev, h11.Response):
                cur = {"status": ev.status_code, "body": b"", "complete": False,
                       "headers": [(bytes(n), bytes(v)) for n, v in ev.headers]}
            elif isinstance(ev, h11.Data):
                cur["body"] += bytes(ev.data)
            elif isinstance(ev, h11.EndOfMessage):
                cur["complete"] = True
                out.append(cur)
                cur = None
                break
            elif isinstance(ev, h11.ConnectionClosed):
                if cur is not None:
                    out.append(cur)
                return out
        if conn.our_state is h11.DONE and conn.their_state is h11.DONE:
            try:
                conn.start_next_cycle()
            except h11.LocalProtocolError:
                return out
        else:
            return out
    return out
