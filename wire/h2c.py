"""HTTP/2 client side: h2-library driven reactive client + independent frame accounting."""
from __future__ import annotations

from typing import Any, Dict, List, Optional, Tuple

import h2.config
import h2.connection
import h2.events
import h2.exceptions
import h2.windows
import h2.settings
import hpack
from hyperframe.frame import (ContinuationFrame, DataFrame, Frame, GoAwayFrame, HeadersFrame,
                              PingFrame, PriorityFrame, PushPromiseFrame, RstStreamFrame,
                              SettingsFrame, WindowUpdateFrame)

PREFACE = b"PRI * HTTP/2.0\r\n\r\nSM\r\n\r\n"


# The h2 library treats an *empty* DATA frame on a stream whose receive window is negative (legal
# after a SETTINGS reduction, RFC 7540 6.9.2) as a flow-control error, although it consumes no
# credit. The client used as an observer must not fail on legal server output, so that one
# check is skipped - only while this client (never the server under test, which shares the
# module) is consuming bytes.
_CLIENT_RX = [False]
_window_consumed = h2.windows.WindowManager.window_consumed


def _tolerant_window_consumed(self: Any, size: int) -> None:
    if size == 0 and _CLIENT_RX[0]:
        return
    _window_consumed(self, size)


h2.windows.WindowManager.window_consumed = _tolerant_window_consumed  # type: ignore


class H2Client:
    """Ordinary, well-behaved HTTP/2 client built on the h2 library (client role)."""

    def __init__(self, conn: Any, settings: Optional[Dict[int, int]] = None,
                 ack_policy: str = "immediate") -> None:
        self.conn = conn
        self.h2 = h2.connection.H2Connection(
            config=h2.config.H2Configuration(client_side=True, header_encoding=None,
                                             validate_inbound_headers=False))
        if settings:
            self.h2.local_settings = h2.settings.Settings(client=True, initial_values=settings)
            mfs = settings.get(h2.settings.SettingCodes.MAX_FRAME_SIZE)
            if mfs:  # advertised from the start, so accept such frames from the start
                self.h2.max_inbound_frame_size = mfs
        self.pos = 0
        self.ack_policy = ack_policy
        self.unacked: List[Tuple[int, int]] = []
        self.streams: Dict[int, dict] = {}
        self.uploads: Dict[int, dict] = {}
        self.goaway: Optional[int] = None
        self.error: Optional[str] = None
        self.events: List[Any] = []

    def _st(self, sid: int) -> dict:
        return self.streams.setdefault(sid, {
            "responses": [], "data": bytearray(), "ended": 0, "reset": None, "trailers": None,
            "data_after_end": 0, "pushed_from": None})

    def start(self, upgrade: bool = False) -> None:
        if upgrade:
            self.h2.initiate_upgrade_connection()
        else:
            self.h2.initiate_connection()
        self.flush()

    def flush(self) -> None:
        data = self.h2.data_to_send()
        if data:
            self.tx = getattr(self, "tx", bytearray())
            self.tx += data  # everything this client has put on the wire (for own accounting)
            self.conn.send(data)

    def request(self, headers: List[Tuple[bytes, bytes]], end_stream: bool = True,
                sid: Optional[int] = None, **kw: Any) -> int:
        if sid is None:
            sid = self.h2.get_next_available_stream_id()
        self.h2.send_headers(sid, headers, end_stream=end_stream, **kw)
        self._st(sid)
        self.flush()
        return sid

    def upload(self, sid: int, body: bytes, frame_plan: List[int], end_stream: bool = True,
               pad: int = 0) -> None:
        """`pad`: every DATA frame carries that many padding bytes (which count against the
        flow-control windows like the data itself)."""
        self.uploads[sid] = {"body": body, "pos": 0, "plan": list(frame_plan), "i": 0,
                             "end": end_stream, "done": False, "pad": pad}
        self.push_uploads()

    def push_uploads(self) -> bool:
        progressed = False
        for sid, u in self.uploads.items():
            if u["done"]:
                continue
            while u["pos"] < len(u["body"]):
                try:
                    win = min(self.h2.local_flow_control_window(sid), self.h2.max_outbound_frame_size)
                except (h2.exceptions.StreamClosedError, h2.exceptions.NoSuchStreamError):
                    u["done"] = True
                    break
                pad = u.get("pad", 0)
                win -= pad + 1 if pad else 0
                if win <= 0:
                    break
                want = u["plan"][u["i"]] if u["i"] < len(u["plan"]) else len(u["body"]) - u["pos"]
                want = max(1, want)
                n = min(want, win, len(u["body"]) - u["pos"])
                u["i"] += 1
                last = u["pos"] + n >= len(u["body"])
                try:
                    self.h2.send_data(sid, u["body"][u["pos"]:u["pos"] + n],
                                      end_stream=bool(last and u["end"]),
                                      pad_length=pad if pad else None)
                except h2.exceptions.ProtocolError:
                    u["done"] = True
                    break
                u["pos"] += n
                progressed = True
            if not u["done"] and u["pos"] >= len(u["body"]):
                if u["end"] and len(u["body"]) == 0:
                    try:
                        self.h2.end_stream(sid)
                    except h2.exceptions.ProtocolError:
                        pass
                    progressed = True
                u["done"] = True
        if progressed:
            self.flush()
        return progressed

    def uploads_done(self) -> bool:
        return all(u["done"] for u in self.uploads.values())

    def pump(self) -> bool:
        """Feed newly received bytes to the client state machine; react; True if progress."""
        rx = self.conn.rx
        if self.pos >= len(rx) or self.error:
            return self.push_uploads()
        data = bytes(rx[self.pos:])
        self.pos = len(rx)
        try:
            _CLIENT_RX[0] = True
            try:
                events = self.h2.receive_data(data)
            finally:
                _CLIENT_RX[0] = False
        except h2.exceptions.ProtocolError as e:
            self.error = f"{type(e).__name__}: {e}"
            return False
        for ev in events:
            self.events.append(ev)
            if isinstance(ev, h2.events.ResponseReceived):
                self._st(ev.stream_id)["responses"].append(list(ev.headers))
            elif isinstance(ev, h2.events.InformationalResponseReceived):
                self._st(ev.stream_id)["responses"].append(list(ev.headers))
            elif isinstance(ev, h2.events.TrailersReceived):
                self._st(ev.stream_id)["trailers"] = list(ev.headers)
            elif isinstance(ev, h2.events.DataReceived):
                st = self._st(ev.stream_id)
                st["data"] += ev.data
                if self.ack_policy == "immediate":
                    self._ack(ev.stream_id, ev.flow_controlled_length)
                else:
                    self.unacked.append((ev.stream_id, ev.flow_controlled_length))
            elif isinstance(ev, h2.events.StreamEnded):
                self._st(ev.stream_id)["ended"] += 1
            elif isinstance(ev, h2.events.StreamReset):
                self._st(ev.stream_id)["reset"] = int(ev.error_code)
            elif isinstance(ev, h2.events.PushedStreamReceived):
                self._st(ev.pushed_stream_id)["pushed_from"] = ev.parent_stream_id
                self._st(ev.pushed_stream_id)["push_headers"] = list(ev.headers)
            elif isinstance(ev, h2.events.ConnectionTerminated):
                self.goaway = int(ev.error_code)
        self.flush()
        self.push_uploads()
        return True

    def _ack(self, sid: int, n: int) -> None:
        if n <= 0:
            return
        try:
            self.h2.acknowledge_received_data(n, sid)
        except (h2.exceptions.ProtocolError, ValueError):
            pass

    def release_acks(self, limit: Optional[int] = None) -> None:
        items, self.unacked = self.unacked[:limit], self.unacked[limit:] if limit else []
        for sid, n in items:
            self._ack(sid, n)
        self.flush()


async def pump_until_quiet(env: Any, clients: List[H2Client], max_rounds: int = 10000) -> None:
    await env.settle0()
    for _ in range(max_rounds):
        progressed = False
        for c in clients:
            if c.pump():
                progressed = True
        await env.settle0()
        if not progressed and all(c.pos >= len(c.conn.rx) for c in clients):
            return


# --------------------------------------------------------------------------- own accounting


class StreamAcct:
    def __init__(self) -> None:
        self.header_blocks: List[List[Tuple[bytes, bytes]]] = []
        self.block_end_stream: List[bool] = []
        self.data = bytearray()
        self.data_frames: List[Tuple[int, int]] = []  # (offset in rx, flow-controlled length)
        self.end_stream = 0
        self.rst: Optional[int] = None
        self.frames_after_end = 0
        self.promised_by: Optional[int] = None


class FrameAccounting:
    """Independent decode of the server's byte stream, frame by frame (hyperframe + hpack)."""

    def __init__(self) -> None:
        self.streams: Dict[int, StreamAcct] = {}
        self.frames: List[Tuple[int, Frame]] = []  # (offset, frame)
        self.goaway: Optional[Tuple[int, int]] = None  # (last_stream_id, error)
        self.settings: List[Dict[int, int]] = []
        self.settings_acks = 0
        self.error: Optional[str] = None
        self.leftover = 0
        self.bytes_after_goaway = 0
        self.window_updates: List[Tuple[int, int]] = []

    def st(self, sid: int) -> StreamAcct:
        return self.streams.setdefault(sid, StreamAcct())

    def decode(self, data: bytes, max_frame: int = 16384) -> "FrameAccounting":
        dec = hpack.Decoder()
        # an observer: whatever table size the peers agreed on (SETTINGS the observer may not
        # have seen as such, e.g. inside a mutated HTTP2-Settings header) is accepted
        dec.max_allowed_table_size = 1 << 62
        pos = 0
        cont: Optional[Tuple[int, bytearray, bool, Optional[int]]] = None
        while pos + 9 <= len(data):
            try:
                frame, length = Frame.parse_frame_header(memoryview(data[pos:pos + 9]))
            except Exception as e:
                self.error = f"bad frame header at {pos}: {e!r}"
                return self
            if pos + 9 + length > len(data):
                break
            try:
                frame.parse_body(memoryview(data[pos + 9:pos + 9 + length]))
            except Exception as e:
                self.error = f"bad frame body at {pos}: {type(frame).__name__} {e!r}"
                return self
            self.frames.append((pos, frame))
            if self.goaway is not None:
                self.bytes_after_goaway += 9 + length
            sid = frame.stream_id
            if cont is not None and not isinstance(frame, ContinuationFrame):
                self.error = f"expected CONTINUATION at {pos}, got {type(frame).__name__}"
                return self
            if isinstance(frame, (HeadersFrame, PushPromiseFrame, ContinuationFrame)):
                if isinstance(frame, ContinuationFrame):
                    if cont is None or cont[0] != sid:
                        self.error = f"unexpected CONTINUATION at {pos}"
                        return self
                    cont[1].extend(frame.data)
                    target, buf, es, promised = cont
                else:
                    es = "END_STREAM" in frame.flags
                    promised = getattr(frame, "promised_stream_id", None) \
                        if isinstance(frame, PushPromiseFrame) else None
                    buf = bytearray(frame.data)
                    cont = (sid, buf, es, promised)
                if "END_HEADERS" in frame.flags:
                    try:
                        headers = [(bytes(n), bytes(v)) for n, v in dec.decode(bytes(cont[1]), raw=True)]
                    except Exception as e:
                        self.error = f"hpack error at {pos}: {e!r}"
                        return self
                    _, _, es, promised = cont
                    cont = None
                    if promised is not None:
                        ps = self.st(promised)
                        ps.promised_by = sid
                        ps.header_blocks.append(headers)
                        ps.block_end_stream.append(False)
                    else:
                        s = self.st(sid)
                        if s.end_stream or s.rst is not None:
                            s.frames_after_end += 1
                        s.header_blocks.append(headers)
                        s.block_end_stream.append(es)
                        if es:
                            s.end_stream += 1
            elif isinstance(frame, DataFrame):
                s = self.st(sid)
                if s.end_stream or s.rst is not None:
                    s.frames_after_end += 1
                if length > max_frame:
                    self.error = f"DATA frame of {length} > max frame size {max_frame}"
                s.data += frame.data
                s.data_frames.append((pos, frame.flow_controlled_length))
                if "END_STREAM" in frame.flags:
                    s.end_stream += 1
            elif isinstance(frame, RstStreamFrame):
                s = self.st(sid)
                if s.rst is None:
                    s.rst = frame.error_code
            elif isinstance(frame, GoAwayFrame):
                if self.goaway is None:
                    self.goaway = (frame.last_stream_id, frame.error_code)
            elif isinstance(frame, SettingsFrame):
                if "ACK" in frame.flags:
                    self.settings_acks += 1
                else:
                    self.settings.append(dict(frame.settings))
            elif isinstance(frame, WindowUpdateFrame):
                self.window_updates.append((sid, frame.window_increment))
            elif isinstance(frame, (PingFrame, PriorityFrame)):
                pass
            pos += 9 + length
        self.leftover = len(data) - pos
        if cont is not None and self.error is None and self.leftover == 0:
            self.error = "header block not terminated"
        return self
