"""Hypothesis strategies for structured HTTP requests, segmentations and bodies."""
from __future__ import annotations

from typing import Any, Dict, List

from hypothesis import strategies as st

TOKEN_CHARS = "abcdefghijklmnopqrstuvwxyzABCDEFGHIJKLMNOPQRSTUVWXYZ0123456789-_"
STD_METHODS = ["GET", "POST", "PUT", "DELETE", "PATCH", "OPTIONS", "HEAD"]
UNRESERVED = "abcdefghijklmnopqrstuvwxyzABCXYZ0123456789-._~"
SUBDELIMS = "!$&'()*+,;=:@"
RESERVED_NAMES = {"content-length", "transfer-encoding", "connection", "upgrade", "expect",
                  "host", "http2-settings", "te", "keep-alive", "proxy-connection", "trailer"}


def make_body(n: int, seed: int) -> bytes:
    """Deterministic, position-dependent body (detects loss, duplication and reordering)."""
    if n <= 0:
        return b""
    period = bytes((seed + 3 * i + (i * i) // 7) % 256 for i in range(509))
    reps = n // len(period) + 1
    out = bytearray(period * reps)[:n]
    # stamp block numbers so equal periods differ
    for blk in range(0, n - 4, 4096):
        out[blk:blk + 4] = (blk // 4096 + seed).to_bytes(4, "big", signed=False)[-4:]
    return bytes(out)


@st.composite
def method(draw: Any, allow_head: bool = False, upper_only: bool = False) -> str:
    kind = draw(st.integers(0, 9))
    if kind < 6:
        ms = STD_METHODS if allow_head else [m for m in STD_METHODS if m != "HEAD"]
        m = draw(st.sampled_from(ms))
    else:
        m = draw(st.text(alphabet="ABCDEFGHIJKLMNOPQRSTUVWXYZ", min_size=1, max_size=8))
        if m in ("CONNECT", "PRI") or (m == "HEAD" and not allow_head):
            m = "FETCH"
    if not upper_only and kind == 9:
        m = m.lower().capitalize() if len(m) > 1 else m.lower()
    return m


@st.composite
def path_segment(draw: Any) -> str:
    parts = []
    for _ in range(draw(st.integers(0, 4))):
        k = draw(st.integers(0, 5))
        if k <= 2:
            parts.append(draw(st.text(alphabet=UNRESERVED, min_size=1, max_size=6)))
        elif k == 3:
            parts.append(draw(st.sampled_from(list(SUBDELIMS))))
        elif k == 4:
            ch = draw(st.sampled_from(["%20", "%2F", "%2f", "%25", "%3F", "%23", "%7e", "%41",
                                       "%00", "%2E%2E", "%0A"]))
            parts.append(ch)
        else:
            ch = draw(st.characters(min_codepoint=0x80, max_codepoint=0x2FFF,
                                    exclude_categories=["Cs"]))
            hexfmt = "%%%02X" if draw(st.booleans()) else "%%%02x"
            parts.append("".join(hexfmt % b for b in ch.encode("utf-8")))
    return "".join(parts)


@st.composite
def raw_path(draw: Any) -> str:
    segs = draw(st.lists(path_segment(), min_size=0, max_size=4))
    return "/" + "/".join(segs)


@st.composite
def query(draw: Any) -> Any:
    k = draw(st.integers(0, 4))
    if k == 0:
        return None
    if k == 1:
        return ""
    return draw(st.text(alphabet=UNRESERVED + "=&?/%+", min_size=1, max_size=16))


@st.composite
def header_list(draw: Any, h2: bool = False, max_size: int = 6) -> List[list]:
    out = []
    n = draw(st.integers(0, max_size))
    if max_size >= 6 and draw(st.integers(0, 24)) == 0:
        n = draw(st.integers(40, 90))  # now and then a request with very many small fields
    names: List[str] = []
    for _ in range(n):
        if names and draw(st.integers(0, 3)) == 0:
            name = draw(st.sampled_from(names))
            if not h2 and draw(st.booleans()):
                name = name.swapcase()
        else:
            name = draw(st.text(alphabet=TOKEN_CHARS, min_size=1, max_size=10))
            if name.lower() in RESERVED_NAMES:
                name = "x-" + name
        if h2:
            name = name.lower()
        names.append(name)
        vk = draw(st.integers(0, 5))
        if vk == 0:
            value = ""
        elif vk == 1:
            value = draw(st.text(
                alphabet=st.characters(min_codepoint=0x21, max_codepoint=0xFF,
                                       exclude_characters="\x7f" + "".join(
                                           chr(c) for c in range(0x80, 0xA0))),
                min_size=1, max_size=12))
        else:
            value = draw(st.text(alphabet=UNRESERVED + " ,;=/\"", min_size=1, max_size=14)).strip()
        if max_size >= 6 and not any(len(h[1]) > 1000 for h in out) \
                and draw(st.integers(0, 19)) == 0:
            # one long value (a cookie, a token): several KiB, for HTTP/2 beyond 16 KiB - well
            # within the advertised limits (16 KiB incomplete head / 64 KiB header list)
            size = draw(st.sampled_from([5000, 20000, 40000] if h2 else [3000, 9000]))
            value = (value + "-" + "long-cookie-value-" * (size // 18 + 1))[:size]
        if h2:
            out.append([name, value])
        else:
            ows_b = draw(st.sampled_from(["", " ", " ", "  ", "\t"]))
            ows_a = draw(st.sampled_from(["", "", " ", "\t "]))
            out.append([name, value, ows_b, ows_a])
    return out


@st.composite
def body_spec(draw: Any, big: bool = True) -> Dict[str, Any]:
    k = draw(st.integers(0, 11 if big else 8))
    if k <= 1:
        n = 0
    elif k == 2:
        n = 1
    elif k <= 6:
        n = draw(st.integers(2, 200))
    elif k <= 8:
        n = draw(st.integers(200, 5000))
    elif k <= 10:
        n = draw(st.integers(65000, 140000))
    else:
        n = draw(st.integers(140000, 400000))
    return {"len": n, "seed": draw(st.integers(0, 255))}


@st.composite
def chunk_plan(draw: Any, n: int, max_chunks: int = 40) -> List[int]:
    if n == 0:
        return []
    k = draw(st.integers(1, max_chunks))
    if k == 1:
        return [n]
    base = max(1, n // k)
    plan = draw(st.lists(st.integers(1, max(1, 2 * base)), min_size=1, max_size=k))
    return plan


@st.composite
def h1_request(draw: Any, allow_head: bool = False, big: bool = True,
               versions: Any = ("1.1", "1.1", "1.1", "1.0")) -> Dict[str, Any]:
    version = draw(st.sampled_from(list(versions)))
    body = draw(body_spec(big=big))
    if body["len"] == 0:
        framing = draw(st.sampled_from(["none", "none", "cl", "chunked"]))
    else:
        framing = draw(st.sampled_from(["cl", "chunked"]))
    if version == "1.0" and framing == "chunked":
        framing = "cl"
    headers = draw(header_list())
    host = draw(st.sampled_from(["example.com", "localhost:8080", "[::1]:443", "a.b"]))
    pos = draw(st.integers(0, len(headers)))
    headers.insert(pos, [draw(st.sampled_from(["Host", "host", "HOST"])), host, " ", ""])
    # an Upgrade offer the server does not take: h2c next to a body (documented: answered in
    # HTTP/1.1) or an unknown protocol; the request must be served like any other
    upgrade = draw(st.sampled_from([None, None, None, None, "h2c", "other"]))
    if upgrade == "h2c" and (framing == "none" or version != "1.1"):
        upgrade = None
    if upgrade is not None:
        extra = [[draw(st.sampled_from(["Upgrade", "upgrade"])),
                  "h2c" if upgrade == "h2c" else "verif-proto/1", " ", ""],
                 ["Connection", "Upgrade, HTTP2-Settings" if upgrade == "h2c" else "upgrade",
                  " ", ""]]
        if upgrade == "h2c":
            extra.append(["HTTP2-Settings", "AAMAAABkAAQAAP__", " ", ""])
        for h in extra:
            headers.insert(draw(st.integers(0, len(headers))), h)
    req = {
        "method": draw(method(allow_head=allow_head)),
        "path": draw(raw_path()),
        "query": draw(query()),
        "version": version,
        "headers": headers,
        "framing": framing,
        "framing_pos": draw(st.one_of(st.none(), st.integers(0, len(headers)))),
        "body_len": body["len"],
        "body_seed": body["seed"],
        "chunks": draw(chunk_plan(body["len"])) if framing == "chunked" else [],
        "chunk_ext": draw(st.booleans()) if framing == "chunked" else False,
        # trailer fields after the last chunk (the body ends where the chunks end)
        "trailers": draw(st.lists(st.sampled_from([["x-checksum", "abc"], ["x-t", ""]]),
                                  max_size=2)) if framing == "chunked" else [],
    }
    if req["method"] == "OPTIONS" and draw(st.integers(0, 2)) == 0:
        req["path"], req["query"] = "*", None  # asterisk-form (RFC 7230 5.3.4)
    return req


@st.composite
def h2_request(draw: Any, allow_head: bool = False, big: bool = True) -> Dict[str, Any]:
    body = draw(body_spec(big=big))
    pad = draw(st.sampled_from([0, 0, 0, 1, 100, 255]))
    frames = draw(chunk_plan(body["len"], max_chunks=30))
    if pad and body["len"] > 2000 and draw(st.booleans()):
        # many small frames, each mostly padding: the credit the padding uses up exceeds a
        # whole window long before the body is through
        size = draw(st.sampled_from([40, 150]))
        frames = [size] * min(2000, body["len"] // size + 1)
    authority = draw(st.sampled_from(["example.com", "localhost:8080", "a.b", "[::1]:8443",
                                      "EXAMPLE.com", "xn--bcher-kva.example", "10.0.0.1"]))
    headers = draw(header_list(h2=True))
    if draw(st.integers(0, 4)) == 0:
        # a literal host header next to :authority (same value: legal, what gateways that
        # translate HTTP/1.1 send); the application must see one host entry, from :authority
        headers.insert(draw(st.integers(0, len(headers))), ["host", authority])
    return {
        "method": draw(method(allow_head=allow_head, upper_only=True)),
        "path": draw(raw_path()),
        "query": draw(query()),
        "authority": authority,
        "headers": headers,
        "body_len": body["len"],
        "body_seed": body["seed"],
        "frames": frames,
        "end_with_headers": body["len"] == 0 and draw(st.booleans()),
        # padding on every DATA frame of the upload (legal; it uses flow-control credit too)
        "pad": pad,
    }


@st.composite
def segmentation(draw: Any) -> Dict[str, Any]:
    """How a byte string is cut into reads and what happens between the reads."""
    mode = draw(st.sampled_from(["one", "cuts", "cuts", "bytes", "blocks"]))
    seg: Dict[str, Any] = {"mode": mode}
    if mode == "cuts":
        seg["cuts"] = draw(st.lists(st.integers(0, 10_000), min_size=1, max_size=6))
    elif mode == "blocks":
        seg["block"] = draw(st.sampled_from([1, 2, 3, 7, 64, 1000, 16384, 65536, 70000]))
    seg["between"] = draw(st.sampled_from(["settle", "settle", "none", "sleep", "mixed"]))
    seg["dt"] = draw(st.sampled_from([0.001, 0.5, 1.0, 3.0]))
    return seg


def apply_segmentation(data: bytes, seg: Dict[str, Any], limit: int = 400) -> List[bytes]:
    n = len(data)
    mode = seg.get("mode", "one")
    if n == 0:
        return []
    if mode == "one":
        return [data]
    if mode == "bytes":
        if n <= limit:
            return [data[i:i + 1] for i in range(n)]
        head = [data[i:i + 1] for i in range(limit)]
        return head + [data[limit:]]
    if mode == "blocks":
        b = seg["block"]
        if n // b > limit:
            b = n // limit + 1
        return [data[i:i + b] for i in range(0, n, b)]
    cuts = sorted({c % n for c in seg.get("cuts", [])} - {0})
    out = []
    prev = 0
    for c in cuts:
        out.append(data[prev:c])
        prev = c
    out.append(data[prev:])
    return out


async def deliver(env: Any, conn: Any, data: bytes, seg: Dict[str, Any]) -> None:
    parts = apply_segmentation(data, seg)
    between = seg.get("between", "settle")
    for i, p in enumerate(parts):
        conn.send(p)
        if i == len(parts) - 1:
            break
        b = between
        if b == "mixed":
            b = ("settle", "none", "sleep")[i % 3]
        if b == "settle":
            await env.settle0()
        elif b == "sleep":
            await env.sleep(seg.get("dt", 0.5))


class SegSender:
    """Collects what a protocol client wants to send; the driver delivers it segmented."""

    def __init__(self, conn: Any) -> None:
        self.conn = conn
        self.out = bytearray()

    @property
    def rx(self) -> bytearray:
        return self.conn.rx

    def send(self, data: bytes) -> None:
        self.out += data

    async def flush(self, env: Any, seg: Dict[str, Any]) -> None:
        if self.out:
            data = bytes(self.out)
            self.out.clear()
            await deliver(env, self.conn, data, seg)
        await env.settle0()
