"""Client-side WebSocket session over either carrier (HTTP/1.1 upgrade, HTTP/2 extended CONNECT)."""
from __future__ import annotations

from typing import Any, Dict, List, Optional, Tuple

from gen.http import SegSender, deliver
from wire.h1 import parse_responses
from wire.h2c import FrameAccounting, H2Client
from wire.ws import handshake_request, make_key

ONE = {"mode": "one", "between": "settle"}


class WSSession:
    def __init__(self, env: Any, carrier: str, seg: Optional[Dict[str, Any]] = None,
                 tls: bool = False, h2_settings: Optional[Dict[int, int]] = None,
                 direct: bool = False) -> None:
        self.h2_settings = h2_settings
        self.ack_policy = "immediate"  # HTTP/2: "manual" withholds flow-control credit
        self.direct = direct  # HTTP/2: write straight to the connection (no segmentation)
        self.env = env
        self.carrier = carrier
        self.seg = seg or ONE
        self.tls = tls
        self.conn: Any = None
        self.client: Optional[H2Client] = None
        self.sender: Optional[SegSender] = None
        self.sid: Optional[int] = None
        self.status: Optional[int] = None
        self.headers: List[Tuple[bytes, bytes]] = []
        self.hs_end = 0
        self.key: Optional[bytes] = None
        self.response_body = b""

    async def open(self, path: str = "/ws", key_seed: int = 1, **hs: Any) -> Optional[int]:
        """Sends the handshake; returns the status code of the answer (None if none)."""
        env = self.env
        if self.carrier == "h1":
            self.conn = env.connect(alpn="http/1.1" if self.tls else None, tls=self.tls)
            if "key" not in hs:
                hs["key"] = make_key(key_seed)
            self.key = hs.get("key")
            self.prior = int(hs.pop("prior", 0) or 0)
            for _ in range(self.prior):  # ordinary requests on the connection first
                self.conn.send(b"GET /prior HTTP/1.1\r\nHost: example.com\r\n\r\n")
                await env.settle(20.0)
            wait = hs.pop("wait", True)
            await deliver(env, self.conn, handshake_request(path=path, **hs), self.seg)
            if not wait:  # the caller acts while the handshake is pending, then finish_open()
                await env.settle0()
                return None
            await env.settle(20.0)
            self._parse_h1()
            return self.status
        self.conn = env.connect(alpn="h2" if self.tls else None, tls=self.tls)
        if self.direct:
            self.client = H2Client(self.conn, self.h2_settings, ack_policy=self.ack_policy)
        else:
            self.sender = SegSender(self.conn)
            self.client = H2Client(self.sender, self.h2_settings, ack_policy=self.ack_policy)
        self.client.start()
        await self._flush()
        self.client.pump()
        await self._flush()
        # RFC 8441: a client may use :protocol only towards a server that has announced
        # SETTINGS_ENABLE_CONNECT_PROTOCOL = 1 (recorded; C10/C11 judge it)
        import h2.settings as _h2s
        self.connect_protocol_announced = \
            self.client.h2.remote_settings.get(_h2s.SettingCodes.ENABLE_CONNECT_PROTOCOL, 0) == 1
        headers = [(b":method", hs.get("method", "CONNECT").encode()),
                   (b":scheme", b"https" if self.tls else b"http"),
                   (b":authority", hs.get("host", "example.com").encode()),
                   (b":path", path.encode())]
        if hs.get("protocol", "websocket") is not None:
            headers.insert(1, (b":protocol", hs.get("protocol", "websocket").encode()))
        if hs.get("version", "13") is not None:
            headers.append((b"sec-websocket-version", hs.get("version", "13").encode()))
        if hs.get("subprotocols") is not None:
            headers.append((b"sec-websocket-protocol", hs["subprotocols"].encode()))
        if hs.get("extensions") is not None:
            headers.append((b"sec-websocket-extensions", hs["extensions"].encode()))
        for n, v in hs.get("headers") or []:
            headers.append((n.lower().encode("latin-1"), v.encode("latin-1")))
        try:
            self.sid = self.client.request(headers, end_stream=False)
        except Exception as e:
            self.client.error = f"client refused to send the handshake: {e!r}"
            return None
        await self._pump()
        await env.settle(20.0)
        await self._pump()
        self._parse_h2()
        return self.status

    async def finish_open(self) -> Optional[int]:
        """After open(wait=False) on the HTTP/1 carrier: wait for and parse the answer."""
        await self.env.settle(20.0)
        self._parse_h1()
        return self.status

    async def _flush(self) -> None:
        if self.sender is not None:
            await self.sender.flush(self.env, self.seg)
        else:
            await self.env.settle0()

    async def _pump(self) -> None:
        assert self.client is not None
        for _ in range(200):
            await self._flush()
            progressed = self.client.pump()
            await self._flush()
            if not progressed and not (self.sender is not None and self.sender.out):
                break

    def _parse_h1(self) -> None:
        data = self.conn.received()
        prior = getattr(self, "prior", 0)
        resps, leftover, err = parse_responses(data, ["GET"] * (prior + 1), self.conn.server_gone)
        if err or len(resps) <= prior or resps[prior].head_end == 0:
            self.status = None
            return
        r = resps[prior]
        self.status = r.status
        self.headers = r.headers
        self.hs_end = r.head_end if r.status == 101 else r.end
        self.response_body = r.body
        self.h1_response = r

    def _parse_h2(self) -> None:
        assert self.client is not None
        st = self.client.streams.get(self.sid or 0, {})
        if st.get("responses"):
            hs = st["responses"][-1]
            d = dict(hs)
            self.status = int(d.get(b":status", b"0"))
            self.headers = [(bytes(n), bytes(v)) for n, v in hs if not n.startswith(b":")]

    async def send(self, data: bytes, seg: Optional[Dict[str, Any]] = None,
                   frame_plan: Optional[List[int]] = None) -> None:
        """Sends WebSocket-level bytes (frames) to the server."""
        seg = seg or self.seg
        if self.carrier == "h1":
            await deliver(self.env, self.conn, data, seg)
            await self.env.settle0()
            return
        assert self.client is not None
        self.client.upload(self.sid, data, frame_plan or [], end_stream=False)
        old_seg, self.seg = self.seg, seg
        stalls = 0
        while stalls < 40:
            await self._pump()
            if self.client.uploads_done():
                break
            await self.env.settle(20.0)
            stalls += 1
        self.seg = old_seg

    async def pump(self) -> None:
        if self.carrier == "h2":
            await self._pump()
        else:
            await self.env.settle0()

    def server_bytes(self) -> bytes:
        """WebSocket-level bytes the server has sent after the handshake."""
        if getattr(self, "_bytes_at_end", None) is not None:
            return self._bytes_at_end
        if self.carrier == "h1":
            return self.conn.received()[self.hs_end:]
        assert self.client is not None
        return bytes(self.client.streams.get(self.sid or 0, {}).get("data", b""))

    def stream_state(self) -> Dict[str, Any]:
        if self.carrier == "h1":
            return {"ended": self.conn.server_gone, "reset": None}
        assert self.client is not None
        st = self.client.streams.get(self.sid or 0, {})
        return {"ended": bool(st.get("ended")), "reset": st.get("reset")}

    async def end(self) -> None:
        """The client goes away (EOF on the transport). What the server said is judged as of
        now: nothing it owes the client may wait for the client to hang up."""
        await self.pump()
        self._bytes_at_end = self.server_bytes()
        self.conn.eof()
        await self.env.settle(50.0)
