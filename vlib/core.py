"""Runner core: parts, sharded Hypothesis execution, evidence, replay, known findings.

A *check* (checks/cXX.py) exposes PROPERTY, LEVEL, ASSUMPTIONS and parts() -> [Part].
A Part couples a generator (a Hypothesis strategy producing a JSON-able case, or an
enumeration) with run_case(case) -> CaseInfo which executes the real code and the
oracle, raising Violation when the property is broken.
"""
from __future__ import annotations

import hashlib
import json
import math
import os
import sys
import time
import traceback
from collections import Counter
from dataclasses import dataclass, field
from pathlib import Path
from typing import Any, Callable, Dict, Iterable, List, Optional

CASE_WALL_LIMIT = 120.0  # a case normally takes milliseconds; beyond this it is "inconclusive"
VERIF = Path(__file__).resolve().parent.parent
REPO = Path(os.environ.get("VERIF_REPO", "/repo")).resolve()


def setup_paths() -> None:
    src = str(REPO / "src")
    if sys.path[0] != src:
        sys.path.insert(0, src)
    deps = VERIF / ".deps"
    if deps.is_dir() and str(deps) not in sys.path:
        sys.path.append(str(deps))
    import hypercorn  # noqa

    assert Path(hypercorn.__file__).resolve().is_relative_to(REPO / "src"), (
        f"hypercorn imported from {hypercorn.__file__}, expected under {REPO}/src"
    )


class Violation(Exception):
    """The property does not hold for this case."""

    def __init__(self, kind: str, detail: str = "", **tags: Any) -> None:
        super().__init__(f"{kind}: {detail}")
        self.kind = kind
        self.detail = detail
        self.tags = tags

    def to_json(self) -> dict:
        return {"kind": self.kind, "detail": self.detail[:4000], "tags": self.tags}


class Inconclusive(Exception):
    """The case could not be judged (budget exhausted, precondition not met)."""


class _GuardAbort(SystemExit):
    """Raised by the per-case guard's signal handler to get out of the case. A SystemExit so that
    neither the server's `except Exception` handlers nor asyncio's task machinery keep it; the
    verdict itself travels in the guard's state, not in this exception."""


class Frozen(BaseException):
    """Ends a Hypothesis run at once after a non_yielding_loop violation: every replay of such a
    case costs FROZEN_CPU seconds, so it is reported as found, not shrunk."""


FROZEN_CPU = 10.0  # CPU seconds inside server code without one scheduler iteration


def _server_origin(e: BaseException) -> Optional[str]:
    """If the exception was raised below the code under test - no harness frame deeper than the
    deepest frame of hypercorn - name that frame; None for an exception of the harness's own
    (including one raised by a harness callback that the server called)."""
    def own_frames(x: BaseException) -> list:
        out = []
        tb = x.__traceback__
        while tb is not None:
            out.append((tb.tb_frame.f_code.co_filename, tb.tb_frame.f_code.co_name,
                        tb.tb_lineno))
            tb = tb.tb_next
        return out

    if isinstance(e, BaseExceptionGroup):
        # (trio and asyncio task groups: the failure is a leaf, its path runs through the groups)
        for sub in e.exceptions:
            sub_origin = _server_origin_path(own_frames(e), sub, own_frames)
            if sub_origin is not None:
                return sub_origin
        return None
    return _judge_frames(own_frames(e))


def _server_origin_path(prefix: list, e: BaseException, own_frames: Any) -> Optional[str]:
    if isinstance(e, BaseExceptionGroup):
        for sub in e.exceptions:
            r = _server_origin_path(prefix + own_frames(e), sub, own_frames)
            if r is not None:
                return r
        return None
    return _judge_frames(prefix + own_frames(e))


def _judge_frames(frames: list) -> Optional[str]:
    verif = str(VERIF) + os.sep
    deps = str(VERIF / ".deps") + os.sep
    src = str(REPO / "src" / "hypercorn") + os.sep
    last_harness = max((i for i, f in enumerate(frames)
                        if f[0].startswith(verif) and not f[0].startswith(deps)), default=-1)
    server = [f for f in frames[last_harness + 1:] if f[0].startswith(src)]
    if not server:
        return None
    fn, name, line = server[-1]
    return f"{fn[len(src):]}:{name}:{line}"


def guarded_run_case(part: Any, case: Any) -> Any:
    """part.run_case(case) under the per-case wall guard.

    Two different things can keep a case from ending. Slowness (a loaded machine, a huge case):
    after CASE_WALL_LIMIT of wall clock the case is *inconclusive*, never a violation. A frozen
    scheduler: the simulator's loops count their iterations (sim.common.TICKS); if the counter has
    not moved while this process burnt FROZEN_CPU seconds of CPU *and* the interrupted stack is
    inside the server's code, a coroutine of the server is looping without ever yielding - every
    connection of that worker is dead. That is not a time budget running out but a violation
    (kind non_yielding_loop) of whatever property the check stands for."""
    import signal
    import time

    try:
        from sim import common as simc
        ticks = simc.TICKS
    except Exception:  # a check without the simulator
        ticks = [0]
    limit = 8000.0 if isinstance(case, dict) and case.get("kind") == "campaign" \
        else CASE_WALL_LIMIT
    st = {"t0": time.monotonic(), "ticks": ticks[0], "cpu": time.process_time()}

    def in_server_code(frame: Any) -> Optional[str]:
        where = []
        f = frame
        while f is not None and len(where) < 60:
            fn = f.f_code.co_filename
            if "/hypercorn/" in fn or "/priority/" in fn:
                where.append(f"{os.path.basename(fn)}:{f.f_code.co_name}:{f.f_lineno}")
            f = f.f_back
        return " <- ".join(where[:6]) if where else None

    def on_alarm(signum: int, frame: Any) -> None:
        # The verdict is kept here and wins over whatever the case ends with: an exception
        # thrown from a signal handler lands at an arbitrary point of the code under test, which
        # may catch it (`except Exception` around an application call) and carry on in a state
        # no oracle should judge. Once decided, every further tick aborts again.
        if st.get("verdict") is not None:
            raise _GuardAbort()
        now = time.monotonic()
        if now - st["t0"] > limit:
            st["verdict"] = Inconclusive(f"case exceeded {limit}s of wall clock")
            raise _GuardAbort()
        if ticks[0] != st["ticks"]:
            st["ticks"], st["cpu"], st["moved"] = ticks[0], time.process_time(), True
            return
        burnt = time.process_time() - st["cpu"]
        # (only while a simulator loop is at work in this case: a check that calls the code
        # under test directly, thousands of times per case, has no scheduler to freeze)
        if burnt >= FROZEN_CPU and st.get("moved"):
            where = in_server_code(frame)
            if where is not None:
                st["cpu"] = time.process_time()
                st["verdict"] = Violation("non_yielding_loop", f"{burnt:.0f} s of CPU without "
                                          f"one scheduler iteration, inside {where}")
                raise _GuardAbort()

    old = signal.signal(signal.SIGALRM, on_alarm)
    signal.setitimer(signal.ITIMER_REAL, 2.0, 2.0)
    try:
        try:
            result = part.run_case(case)
        finally:
            signal.setitimer(signal.ITIMER_REAL, 0)
            signal.signal(signal.SIGALRM, old)
    except BaseException as e:
        if st.get("verdict") is not None:
            raise st["verdict"] from None
        if isinstance(e, Exception) and not isinstance(e, (Violation, Inconclusive)):
            where = _server_origin(e)
            if where is not None:
                # An exception that comes *out of* the code under test for a generated - i.e.
                # well-formed - input is a verdict on that code, not a failure of the harness.
                raise Violation("exception_from_server_code", f"{e!r} raised in {where}") from e
        raise
    if st.get("verdict") is not None:
        raise st["verdict"]
    return result


@dataclass
class CaseInfo:
    nontrivial: bool = True
    classes: Iterable[str] = ()
    evals: int = 1  # executions this case stands for (e.g. both back ends = 2)


@dataclass
class Part:
    name: str
    run_case: Callable[[Any], Optional[CaseInfo]]
    strategy: Optional[Callable[[], Any]] = None
    enumerate: Optional[Callable[[str], Iterable[Any]]] = None
    quick: int = 1000
    thorough: int = 20000
    rule: str = ""
    max_shards: int = 16


def canon(case: Any) -> str:
    return json.dumps(case, sort_keys=True, separators=(",", ":"), default=repr)


def digest(case: Any) -> int:
    return int.from_bytes(hashlib.sha1(canon(case).encode()).digest()[:8], "big")


def derive_seed(seed: int, *parts: Any) -> int:
    h = hashlib.sha256(":".join(str(p) for p in (seed,) + parts).encode()).digest()
    return int.from_bytes(h[:6], "big")


# --------------------------------------------------------------------------- known findings


def load_known() -> List[dict]:
    p = VERIF / "known_findings.json"
    if not p.exists():
        return []
    return json.loads(p.read_text()).get("findings", [])


def match_known(known: List[dict], prop: str, part: str, v: Violation) -> Optional[dict]:
    for k in known:
        if k.get("status") != "known" or k.get("property") != prop:
            continue
        m = k.get("matcher", {})
        if m.get("part") not in (None, part):
            continue
        if m.get("kind") != v.kind:
            continue
        tags = m.get("tags", {})
        if all(v.tags.get(t) == val for t, val in tags.items()):
            return k
    return None


# --------------------------------------------------------------------------- shard execution


class Recorder:
    def __init__(self, prop: str, part: Part, known: List[dict], collect: bool) -> None:
        self.prop = prop
        self.part = part
        self.known = known
        self.collect = collect
        self.evals = 0
        self.cases = 0
        self.digests: set = set()
        self.classes: Counter = Counter()
        self.samples: List[Any] = []
        self.known_hits: Counter = Counter()
        self.inconclusive = 0
        self.last_failure: Optional[tuple] = None
        self.buckets: Dict[str, tuple] = {}

    def run(self, case: Any) -> None:
        self.cases += 1
        try:
            info = guarded_run_case(self.part, case)
        except Inconclusive:
            self.inconclusive += 1
            self.evals += 1
            return
        except Violation as v:
            self.evals += 1
            k = match_known(self.known, self.prop, self.part.name, v)
            if k is not None:
                self.known_hits[k["id"]] += 1
                return
            if self.collect:
                key = v.kind + json.dumps(v.tags, sort_keys=True, default=repr)
                if key not in self.buckets or len(canon(case)) < len(canon(self.buckets[key][0])):
                    self.buckets[key] = (case, v.to_json())
                return
            vj = v.to_json()
            if getattr(v, "replay_part", None):
                vj["replay_part"] = v.replay_part  # a campaign reports a case of another part
            self.last_failure = (getattr(v, "replay_case", None) or case, vj)
            if "non_yielding_loop" in v.kind + v.detail or v.kind == "spin":
                # (a spinning task costs its million scheduler steps - tens of seconds - on
                # every replay as well: reported as found, not shrunk)
                raise Frozen() from v
            raise
        if info is None:
            info = CaseInfo()
        self.evals += info.evals
        for c in info.classes:
            self.classes[c] += 1
        if info.nontrivial:
            d = digest(case)
            if d not in self.digests:
                self.digests.add(d)
                if len(self.samples) < 2:
                    self.samples.append(case)

    def result(self) -> dict:
        return {
            "evals": self.evals,
            "cases": self.cases,
            "digests": list(self.digests),
            "classes": dict(self.classes),
            "samples": self.samples,
            "known_hits": dict(self.known_hits),
            "inconclusive": self.inconclusive,
            "buckets": {k: v for k, v in self.buckets.items()},
        }


def run_shard(args: tuple) -> dict:
    modname, part_name, shard, nshards, tier, seed, collect = args
    t0 = time.time()
    out: dict = {"part": part_name, "shard": shard}
    try:
        setup_paths()
        import importlib

        mod = importlib.import_module(modname)
        part = next(p for p in mod.parts() if p.name == part_name)
        rec = Recorder(mod.PROPERTY, part, load_known(), collect)
        failure = None
        if part.enumerate is not None:
            for i, case in enumerate(part.enumerate(tier)):
                if i % nshards != shard:
                    continue
                try:
                    rec.run(case)
                except (Violation, Frozen):
                    failure = rec.last_failure
                    break
            out["exhaustive"] = True
        else:
            total = part.quick if tier == "quick" else part.thorough
            scale = float(os.environ.get("VERIF_SCALE", "1"))
            n = max(1, math.ceil(total * scale / nshards))
            failure = _run_hypothesis(part, rec, n, derive_seed(seed, part_name, shard))
        out.update(rec.result())
        out["failure"] = failure
    except BaseException:  # harness error
        out["error"] = traceback.format_exc()
    out["wall"] = time.time() - t0
    return out


def _run_hypothesis(part: Part, rec: Recorder, n: int, hseed: int) -> Optional[tuple]:
    import hypothesis
    from hypothesis import HealthCheck, Phase, Verbosity, given, settings

    strat = part.strategy()

    @hypothesis.seed(hseed)
    @settings(
        max_examples=n,
        database=None,
        deadline=None,
        derandomize=False,
        report_multiple_bugs=False,
        suppress_health_check=list(HealthCheck),
        phases=[Phase.generate, Phase.shrink],
        verbosity=Verbosity.quiet,
        print_blob=False,
    )
    @given(strat)
    def test(case: Any) -> None:
        rec.run(case)

    try:
        test()
    except (Violation, Frozen):
        return rec.last_failure
    except hypothesis.errors.Flaky:
        # the code under test answered differently on Hypothesis' own replay (e.g. it iterates
        # over a set of tasks): keep the violation that was seen; the parent re-runs the saved
        # case and reports it only if it fails again from the file
        if rec.last_failure is not None:
            return rec.last_failure
        raise
    return None


# --------------------------------------------------------------------------- parent


def nshards_for(part: Part, tier: str) -> int:
    if part.enumerate is not None:
        return part.max_shards
    total = part.quick if tier == "quick" else part.thorough
    return max(1, min(part.max_shards, total // 20))


def run_check(mod: Any, tier: str, seed: int, only_part: Optional[str], collect: bool) -> int:
    import multiprocessing as mp

    t0 = time.time()
    prop = mod.PROPERTY
    parts: List[Part] = [p for p in mod.parts() if only_part in (None, p.name)]
    known = load_known()
    rc = 0

    # 1. known findings / fixed regressions are replayed first, outside Hypothesis
    known_lines, regress_failures = replay_registered(mod, known)
    for line in known_lines:
        print(line, flush=True)

    tasks = []
    for p in parts:
        n = nshards_for(p, tier)
        for s in range(n):
            tasks.append((mod.__name__, p.name, s, n, tier, seed, collect))
    ctx = mp.get_context("fork")
    nproc = int(os.environ.get("VERIF_JOBS", "16"))
    results: List[dict] = []
    with ctx.Pool(min(nproc, max(1, len(tasks))), maxtasksperchild=1) as pool:
        for r in pool.imap_unordered(run_shard, tasks):
            results.append(r)

    errors = [r for r in results if "error" in r]
    if errors:
        for r in errors[:3]:
            print(f"HARNESS-ERROR part={r['part']} shard={r['shard']}\n{r['error']}", file=sys.stderr)
        return 2

    per_part: Dict[str, dict] = {}
    failures: List[tuple] = list(regress_failures)
    for p in parts:
        rs = [r for r in results if r["part"] == p.name]
        digs: set = set()
        classes: Counter = Counter()
        khits: Counter = Counter()
        samples: List[Any] = []
        buckets: Dict[str, Any] = {}
        for r in sorted(rs, key=lambda r: r["shard"]):
            digs.update(r["digests"])
            classes.update(r["classes"])
            khits.update(r["known_hits"])
            if len(samples) < 3:
                samples.extend(r["samples"][: 3 - len(samples)])
            if r.get("failure"):
                failures.append((r["failure"][1].get("replay_part", p.name), r["failure"][0],
                                 r["failure"][1]))
            buckets.update(r.get("buckets", {}))
        per_part[p.name] = {
            "evaluations": sum(r["evals"] for r in rs),
            "cases": sum(r["cases"] for r in rs),
            "distinct_nontrivial": len(digs),
            "inconclusive": sum(r["inconclusive"] for r in rs),
            "exhaustive": any(r.get("exhaustive") for r in rs),
            "classes": dict(sorted(classes.items())),
            "known_finding_hits": dict(khits),
            "rule": p.rule,
            "samples": samples,
            "shards": len(rs),
            "_digs": digs,
            "_buckets": buckets,
        }

    # 2. failures: dedupe by (part, kind, tags), write replay, confirm outside hypothesis
    seen = set()
    nviol = 0
    for part_name, case, vj in failures:
        key = (part_name, vj["kind"], json.dumps(vj["tags"], sort_keys=True, default=repr))
        if key in seen:
            continue
        seen.add(key)
        path = write_replay(prop, part_name, case, vj)
        confirmed = None
        for _ in range(3):  # (a second and third try only for code that is not deterministic)
            confirmed = confirm_replay(mod, part_name, case)
            if confirmed is not None:
                break
        if confirmed is None:
            print(
                f"HARNESS-ERROR failure in part={part_name} kind={vj['kind']} did not reproduce "
                f"from {path}",
                file=sys.stderr,
            )
            rc = rc or 2  # (a confirmed violation of the same run still exits 1)
            continue
        nviol += 1
        print(f"VIOLATION property={prop} replay={path}", flush=True)
        print(f"  part={part_name} kind={confirmed['kind']} tags={confirmed['tags']}")
        print(f"  detail={confirmed['detail'][:600]}")
        rc = 1

    if collect:
        for pn, pp in per_part.items():
            for key, (case, vj) in pp["_buckets"].items():
                path = write_replay(prop, pn, case, vj, sub="collect")
                print(f"COLLECTED part={pn} kind={vj['kind']} tags={vj['tags']} replay={path}")
                print(f"  detail={vj['detail'][:400]}")

    write_evidence(mod, tier, seed, per_part, nviol, time.time() - t0, known_lines)
    tot = sum(pp["evaluations"] for pp in per_part.values())
    nt = sum(pp["distinct_nontrivial"] for pp in per_part.values())
    print(
        f"{prop} tier={tier} seed={seed} evaluations={tot} distinct_nontrivial={nt} "
        f"violations={nviol} wall={time.time() - t0:.1f}s",
        flush=True,
    )
    return rc


def write_replay(prop: str, part: str, case: Any, vj: dict, sub: str = "") -> str:
    d = VERIF / "replays" / prop / sub if sub else VERIF / "replays" / prop
    d.mkdir(parents=True, exist_ok=True)
    body = {"property": prop, "part": part, "case": case, "violation": vj}
    name = f"{part}-{vj['kind']}-{digest([part, case]):016x}.json".replace("/", "_")
    path = d / name
    path.write_text(json.dumps(body, indent=1, sort_keys=True, default=repr))
    return str(path.relative_to(VERIF))


def confirm_replay(mod: Any, part_name: str, case: Any) -> Optional[dict]:
    part = next(p for p in mod.parts() if p.name == part_name)
    # JSON round trip: the replay must work from the file alone
    case = json.loads(json.dumps(case, default=repr))
    try:
        guarded_run_case(part, case)
    except Violation as v:
        return v.to_json()
    except Inconclusive:
        return None
    return None


def replay_registered(mod: Any, known: List[dict]) -> tuple:
    """Replay committed cases of known findings (-> KNOWN-FINDING lines) and of
    fixed findings (-> regression failures, reported as ordinary violations)."""
    lines: List[str] = []
    failures: List[tuple] = []
    parts = {p.name: p for p in mod.parts()}
    for k in known:
        if k.get("property") != mod.PROPERTY or not k.get("replay"):
            continue
        rp = VERIF / k["replay"]
        body = json.loads(rp.read_text())
        part = parts.get(body["part"])
        if part is None:
            continue
        try:
            guarded_run_case(part, body["case"])
            outcome = None
        except Inconclusive:
            outcome = None
        except Violation as v:
            outcome = v
        if k.get("status") == "known":
            if outcome is not None and match_known([k], mod.PROPERTY, body["part"], outcome):
                lines.append(f"KNOWN-FINDING: property={mod.PROPERTY} {k['id']}: {k['title']}")
            elif outcome is not None:
                # fails differently from what is listed: an unlisted violation
                failures.append((body["part"], body["case"], outcome.to_json()))
            else:
                lines.append(
                    f"NOTE: listed finding {k['id']} no longer reproduces from {k['replay']}"
                )
        elif k.get("status") == "fixed" and os.environ.get("VERIF_NO_FIXED_REPLAY") == "1":
            continue  # sensitivity experiments only (tools/revertfix.py): generators alone
        elif k.get("status") == "fixed" and outcome is not None:
            if match_known(known, mod.PROPERTY, body["part"], outcome) is not None:
                continue  # the case now stops at another, listed finding: not this regression
            failures.append((body["part"], body["case"], outcome.to_json()))
    return lines, failures


def write_evidence(
    mod: Any, tier: str, seed: int, per_part: Dict[str, dict], nviol: int, wall: float,
    known_lines: List[str],
) -> None:
    alld: set = set()
    for pn, pp in per_part.items():
        alld.update((pn, d) for d in pp.pop("_digs"))
        pp.pop("_buckets", None)
    samples = []
    for pn, pp in per_part.items():
        for s in pp["samples"][:2]:
            samples.append({"part": pn, "case": s})
    rule = getattr(mod, "RULE", "") + " | per part: " + "; ".join(
        f"[{pn}] {pp['rule']}" for pn, pp in per_part.items()
    )
    ev = {
        "property_id": mod.PROPERTY,
        "tier": tier,
        "seed": seed,
        "level": mod.LEVEL,
        "coverage": {
            "evaluations": sum(pp["evaluations"] for pp in per_part.values()),
            "distinct_nontrivial": len(alld),
            "rule": rule,
            "samples": samples,
            "exhaustive": bool(per_part) and all(pp["exhaustive"] for pp in per_part.values()),
            "parts": per_part,
            "known_findings_reported": known_lines,
        },
        "assumptions": list(getattr(mod, "ASSUMPTIONS", [])),
        "wall_s": round(wall, 2),
        "violations": nviol,
    }
    # evidence/ describes /repo itself; a sensitivity run against a scratch tree (VERIF_REPO)
    # leaves its record in the git-ignored work directory instead
    d = VERIF / "evidence" if not os.environ.get("VERIF_REPO") else VERIF / ".work" / "evidence"
    d.mkdir(parents=True, exist_ok=True)
    (d / f"{mod.PROPERTY}.json").write_text(json.dumps(ev, indent=1, default=repr))


def main(argv: List[str]) -> int:
    import argparse

    ap = argparse.ArgumentParser()
    ap.add_argument("property")
    ap.add_argument("--tier", default=os.environ.get("VERIF_TIER", "quick"),
                    choices=["quick", "thorough"])
    ap.add_argument("--replay")
    ap.add_argument("--part")
    ap.add_argument("--collect", action="store_true",
                    default=os.environ.get("VERIF_COLLECT") == "1")
    a = ap.parse_args(argv)
    if os.environ.get("PYTHONHASHSEED") != "0":
        os.environ["PYTHONHASHSEED"] = "0"
        os.execv(sys.executable, [sys.executable, str(VERIF / "check")] + argv)
    try:
        seed = int(os.environ.get("VERIF_SEED", "1") or "1")
    except ValueError:
        seed = 1
    os.chdir(VERIF)
    sys.path.insert(0, str(VERIF))
    try:
        setup_paths()
        import importlib

        mod = importlib.import_module(f"checks.{a.property.lower()}")
    except Exception:
        traceback.print_exc()
        return 2
    if a.replay:
        body = json.loads(Path(a.replay).read_text())
        part = next(p for p in mod.parts() if p.name == body["part"])
        try:
            guarded_run_case(part, body["case"])
        except Violation as v:
            print(f"VIOLATION property={mod.PROPERTY} replay={a.replay}")
            print(f"  part={body['part']} kind={v.kind} tags={v.tags}\n  detail={v.detail[:2000]}")
            return 1
        except Inconclusive as e:
            print(f"replay inconclusive: {e}")
            return 0
        print("replay: property held for this case")
        return 0
    try:
        return run_check(mod, a.tier, seed, a.part, a.collect)
    except Exception:
        traceback.print_exc()
        return 2
