#!/bin/bash
# Offline setup: everything comes from /venv and the local wheelhouse.
set -e
cd "$(dirname "$0")"
export PIP_NO_INDEX=1
/venv/bin/python -c "import hypothesis" 2>/dev/null || \
  /venv/bin/pip install -q --no-index --find-links /opt/veriftools/wheels hypothesis
mkdir -p .deps .work evidence replays
if ! PYTHONPATH=.deps /venv/bin/python -c "import atheris" 2>/dev/null; then
  /venv/bin/pip install -q --no-index --find-links /opt/veriftools/wheels --target .deps atheris \
    || echo "atheris not installable: coverage-guided tier of C04 will be skipped"
fi
/venv/bin/python -c "import sys; sys.path.insert(0,'/repo/src'); import hypercorn, h11, h2, wsproto, trio, hypothesis; print('setup ok', hypothesis.__version__)"
