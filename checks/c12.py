"""C12 - invalid application messages are rejected without corrupting the wire."""
from __future__ import annotations

import itertools
from typing import Any, Dict, List, Optional, Tuple

from hypothesis import strategies as st

from gen.wsdrive import WSSession
from sim.run import BACKENDS, run_sim
from vlib.core import CaseInfo, Part, Violation
from wire.h1 import b2s, parse_responses, s2b
from wire.h2c import FrameAccounting, H2Client
from wire.ws import parse_server_frames

PROPERTY = "C12"
LEVEL = "exploration"
RULE = (
    "sequences of up to 6 application sends over the ASGI alphabet (http.response.start / body "
    "/ trailers / push / early_hint, websocket.accept / send / close / http.response.*, unknown "
    "types) with valid and invalid payloads (str for bytes, pseudo-headers, CR/LF/NUL in names "
    "and values, non-str push path / text) for HTTP/1.1, HTTP/2 and WebSocket on both carriers, "
    "client passive; oracle = reference automaton of the ASGI spec for the enumerated "
    "invalidity classes, wire-byte delta of every raising call = 0, final wire bytes re-parsed "
    "by own parsers, header-injection scan; sequences of length <= 2 (quick) / <= 3 (thorough) "
    "enumerated exhaustively; non-trivial = an invalid message after at least one valid one, "
    "or a control character"
)
ASSUMPTIONS = [
    "only the invalidity classes the statement enumerates are asserted to raise; other "
    "spec-dubious combinations are unconstrained for raising but subject to the wire checks",
    "the application first waits until the wire is quiet (the HTTP/2 SETTINGS ACK is written "
    "concurrently with the first send otherwise)",
]
T_BIG = 100000.0

R = lambda v: {"$raw": v}  # noqa: E731

HTTP_MSGS: Dict[str, dict] = {
    "start": {"type": "http.response.start", "status": 200, "headers": [["x-a", "1"]]},
    "start_204": {"type": "http.response.start", "status": 204, "headers": []},
    "start_strname": {"type": "http.response.start", "status": 200,
                      "headers": [[R("x-a"), "1"]]},
    "start_strvalue": {"type": "http.response.start", "status": 200,
                       "headers": [["x-a", R("1")]]},
    "start_pseudo": {"type": "http.response.start", "status": 200,
                     "headers": [[":status", "500"]]},
    "start_crlf": {"type": "http.response.start", "status": 200,
                   "headers": [["x-a", "a\r\nset-cookie: evil=1"]]},
    "start_lf": {"type": "http.response.start", "status": 200, "headers": [["x-a", "a\nb: c"]]},
    "start_nul": {"type": "http.response.start", "status": 200, "headers": [["x-a", "a\x00b"]]},
    "start_crlfname": {"type": "http.response.start", "status": 200,
                       "headers": [["x-a\r\nx-evil", "1"]]},
    "start_trailers": {"type": "http.response.start", "status": 200, "headers": [],
                       "trailers": True},
    # payloads the statement does not list (outcome open) - but whatever is refused with nothing
    # written must leave the request as it was: a corrected start has to be accepted afterwards
    "start_status_str": {"type": "http.response.start", "status": R("200 OK"), "headers": []},
    "start_status_none": {"type": "http.response.start", "status": R(None), "headers": []},
    "start_spacename": {"type": "http.response.start", "status": 200,
                        "headers": [["x a", "1"]]},
    "body": {"type": "http.response.body", "body": "abc", "more_body": True},
    "body_empty": {"type": "http.response.body", "body": "", "more_body": True},
    "body_last": {"type": "http.response.body", "body": "z", "more_body": False},
    "body_str": {"type": "http.response.body", "body": R("text"), "more_body": True},
    "trailers": {"type": "http.response.trailers", "headers": [["x-t", "1"]],
                 "more_trailers": False},
    "trailers_crlf": {"type": "http.response.trailers", "headers": [["x-t", "1\r\nx: y"]],
                      "more_trailers": False},
    "push": {"type": "http.response.push", "path": "/pushed", "headers": []},
    "push_badpath": {"type": "http.response.push", "path": R(b"/pushed"), "headers": []},
    "push_intpath": {"type": "http.response.push", "path": R(7), "headers": []},
    "push_pseudo": {"type": "http.response.push", "path": "/pushed",
                    "headers": [[":method", "POST"]]},
    "push_crlf": {"type": "http.response.push", "path": "/pushed",
                  "headers": [["x-p", "a\r\nb: c"]]},
    "hint": {"type": "http.response.early_hint", "links": ["</a.css>; rel=preload"]},
    "unknown": {"type": "http.response.bogus"},
    "ws_send": {"type": "websocket.send", "text": "x"},
}

WS_MSGS: Dict[str, dict] = {
    "accept": {"type": "websocket.accept"},
    "accept_hdr": {"type": "websocket.accept", "headers": [["x-a", "1"]]},
    "accept_crlf": {"type": "websocket.accept", "headers": [["x-a", "a\r\nset-cookie: e=1"]]},
    "accept_nul": {"type": "websocket.accept", "headers": [["x-a", "a\x00b"]]},
    "accept_pseudo": {"type": "websocket.accept", "headers": [[":status", "200"]]},
    "accept_strname": {"type": "websocket.accept", "headers": [[R("x-a"), "1"]]},
    "send_text": {"type": "websocket.send", "text": "hello"},
    "send_bytes": {"type": "websocket.send", "bytes": "\x00\x01"},
    "send_badtext": {"type": "websocket.send", "text": R(b"bytes")},
    "send_inttext": {"type": "websocket.send", "text": R(5)},
    "close": {"type": "websocket.close", "code": 1000},
    "hstart": {"type": "websocket.http.response.start", "status": 401,
               "headers": [["x-a", "1"]]},
    "hstart_crlf": {"type": "websocket.http.response.start", "status": 401,
                    "headers": [["x-a", "a\r\nb: c"]]},
    "hstart_pseudo": {"type": "websocket.http.response.start", "status": 401,
                      "headers": [[":status", "200"]]},
    "hbody": {"type": "websocket.http.response.body", "body": "no", "more_body": True},
    "hbody_last": {"type": "websocket.http.response.body", "body": "", "more_body": False},
    "unknown": {"type": "websocket.bogus"},
    "http_start": {"type": "http.response.start", "status": 200, "headers": []},
}

CORE_HTTP = ["start", "start_pseudo", "start_crlf", "body", "body_last", "push", "push_badpath",
             "unknown", "start_strname", "trailers", "hint", "start_nul", "start_status_str",
             "start_spacename"]
CORE_WS = ["accept", "accept_crlf", "send_text", "send_badtext", "close", "hstart", "hbody_last",
           "unknown", "accept_pseudo", "hstart_crlf"]


def has_ctl(msg: dict) -> bool:
    return any(c in repr(msg) for c in ("\\r", "\\n", "\\x00"))


def bad_header_payload(msg: dict) -> bool:
    """str where bytes are required, or a pseudo-header (the enumerated payload classes)."""
    for h in msg.get("headers", []):
        for part in h:
            if isinstance(part, dict):
                return True
        if isinstance(h[0], str) and h[0].startswith(":"):
            return True
    return False


# --------------------------------------------------------------------------- reference automata


def http_expect(state: str, name: str, proto: str) -> Tuple[str, str]:
    """-> (verdict, state'): verdict in raise|ok|any; state in REQUEST RESPONSE TRAILERS CLOSED ?"""
    msg = HTTP_MSGS[name]
    t = msg["type"]
    h2 = proto == "h2"
    if state == "?":
        return "any", "?"
    if t in ("http.response.bogus", "websocket.send"):
        return "raise", state
    if state == "CLOSED":
        return "raise", state  # anything after completion
    if t == "http.response.start":
        if state != "REQUEST":
            return "raise", state  # a second response start
        if bad_header_payload(msg):
            return "raise", state
        if has_ctl(msg):
            return "any", "?"  # must not reach the wire; raising is one way to ensure that
        if not isinstance(msg["status"], int) or not 100 <= msg["status"] <= 999 \
                or any(" " in h[0] for h in msg["headers"] if isinstance(h[0], str)):
            return "any", "?"  # not listed: open; if refused, the state stays (see the judge)
        if msg.get("trailers") and h2:
            return "ok", "RESPONSE_T"
        return "ok", "RESPONSE"
    if t == "http.response.body":
        if state == "REQUEST":
            return "raise", state  # a body before the response start
        if state == "TRAILERS":
            return "any", "?"
        if isinstance(msg["body"], dict):
            return "any", "?"
        if msg.get("more_body"):
            return "ok", state
        return "ok", "TRAILERS" if state == "RESPONSE_T" else "CLOSED"
    if t == "http.response.push":
        if not h2:
            return "any", state
        if isinstance(msg["path"], dict):
            return "raise", state  # non-str push path
        if bad_header_payload(msg):
            return "raise", state
        return "any", state
    if t == "http.response.trailers":
        if not h2:
            return "any", "?"
        if state == "TRAILERS" and not has_ctl(msg):
            return "ok", "CLOSED"
        if state in ("RESPONSE", "RESPONSE_T"):
            # ASGI: trailers follow the *complete* body of a response started with
            # trailers=True; while the body is still being sent they are invalid for the state
            return "raise", state
        return "any", "?"
    if t == "http.response.early_hint":
        if h2 and state == "REQUEST":
            return "ok", state
        return "any", state if h2 else "?"
    return "any", "?"


def ws_expect(state: str, name: str) -> Tuple[str, str]:
    """states: HANDSHAKE CONNECTED RESPONSE CLOSED HTTPCLOSED ?"""
    msg = WS_MSGS[name]
    t = msg["type"]
    if state == "?":
        return "any", "?"
    if t in ("websocket.bogus", "http.response.start"):
        return "raise", state
    if state in ("CLOSED", "HTTPCLOSED"):
        return "raise", state  # anything after completion
    if t == "websocket.accept":
        if state != "HANDSHAKE":
            # (after websocket.http.response.start nothing is on the wire yet: a server may still
            # accept, or refuse - the statement does not say, so what follows is unconstrained)
            return "any", "?" if state in ("RESPONSE", "HSTART") else state
        if bad_header_payload(msg):
            return "raise", state
        if has_ctl(msg):
            return "any", "?"
        return "ok", "CONNECTED"
    if t == "websocket.send":
        if state == "HANDSHAKE":
            return "raise", state  # websocket.send before accept
        if state in ("RESPONSE", "HSTART"):
            return "any", state
        if isinstance(msg.get("text"), dict):
            return "raise", state  # non-str text frame
        return "ok", state
    if t == "websocket.close":
        if state == "HANDSHAKE":
            return "ok", "HTTPCLOSED"
        if state == "CONNECTED":
            return "ok", "CLOSED"
        return "any", "?"
    if t == "websocket.http.response.start":
        if state == "HANDSHAKE":
            return "any", "HSTART" if not has_ctl(msg) and not bad_header_payload(msg) else "?"
        return "any", "?" if state != "CONNECTED" else state
    if t == "websocket.http.response.body":
        if state == "HSTART":
            return "ok", "RESPONSE" if msg.get("more_body") else "HTTPCLOSED"
        if state == "RESPONSE":
            return "ok", "RESPONSE" if msg.get("more_body") else "HTTPCLOSED"
        return "any", "?"
    return "any", "?"


# --------------------------------------------------------------------------- running


def app_program(case: Dict[str, Any]) -> list:
    table = WS_MSGS if case["proto"].startswith("ws") else HTTP_MSGS
    prog: list = []
    if case["proto"].startswith("ws"):
        prog.append(["recv"])
    prog.append(["wait_quiet"])
    for name in case["seq"]:
        prog.append(["send", table[name], "tolerate"])
    prog.append(["wait_quiet"])
    return prog


async def scenario(env: Any, case: Dict[str, Any]) -> Any:
    proto = case["proto"]
    if proto == "h1":
        conn = env.connect()
        conn.send(b"GET /x HTTP/1.1\r\nHost: example.com\r\nTE: trailers\r\n\r\n")
        await env.settle(60.0)
        return {"conn": conn}
    if proto == "h2":
        conn = env.connect(alpn="h2", tls=True)
        # SETTINGS_ENABLE_PUSH = 0: a push the application asks for is then dropped silently
        client = H2Client(conn, {2: 0} if case.get("no_push") else None)
        client.start()
        await env.settle0()
        client.pump()
        client.request([(b":method", b"GET"), (b":scheme", b"https"), (b":authority", b"example.com"),
                        (b":path", b"/x"), (b"te", b"trailers")], end_stream=True)
        for _ in range(30):
            await env.settle(5.0)
            if not client.pump():
                break
        return {"conn": conn, "client": client}
    ws = WSSession(env, "h1" if proto == "ws1" else "h2", direct=True)
    status = await ws.open(path="/x", subprotocols="chat")
    await env.settle(60.0)
    await ws.pump()
    return {"conn": ws.conn, "ws": ws, "status": status, "client": ws.client}


def supplied_headers(case: Dict[str, Any]) -> set:
    table = WS_MSGS if case["proto"].startswith("ws") else HTTP_MSGS
    out = set()
    for name in case["seq"]:
        for h in table[name].get("headers", []):
            if isinstance(h[0], str) and isinstance(h[1], str):
                out.add((s2b(h[0]).lower(), s2b(h[1]).strip()))
    return out


SERVER_NAMES = {b"date", b"server", b"alt-svc", b"connection", b"transfer-encoding",
                b"content-length", b"upgrade", b"sec-websocket-accept",
                b"sec-websocket-extensions", b"sec-websocket-protocol", b"link"}


def scan_headers(headers: List[Tuple[bytes, bytes]], supplied: set, be: str, where: str) -> None:
    for n, v in headers:
        if any(c in n or c in v for c in (b"\r", b"\n", b"\x00")):
            raise Violation("control_char_on_wire", f"{where}: header {n!r}: {v!r}", backend=be)
        if n.startswith(b":"):
            continue
        if n.lower() in SERVER_NAMES:
            continue
        if (n.lower(), v) not in supplied:
            raise Violation("header_injection", f"{where}: header {n!r}: {v!r} was not supplied "
                            f"as such by the application", backend=be)


def judge(case: Dict[str, Any], obs: Any) -> Dict[str, Any]:
    be = obs.backend
    proto = case["proto"]
    if obs.spin:
        raise Violation("spin", obs.spin, backend=be)
    val = obs.value
    conn = val["conn"]
    if conn.handler_exc is not None:
        raise Violation("handler_exception", repr(conn.handler_exc), backend=be)
    mine = [i for i in obs.instances if i.scope.get("path") == "/x"]
    others = [i for i in obs.instances if i.scope.get("path") != "/x"]
    if len(mine) != 1 or any(i.scope.get("path") != "/pushed" for i in others):
        raise Violation("instance_count", f"{[i.scope.get('path') for i in obs.instances]}",
                        backend=be)
    if case.get("no_push") and others:
        raise Violation("push_to_client_that_disabled_it", f"{len(others)} pushed requests "
                        f"started although the client sent SETTINGS_ENABLE_PUSH = 0", backend=be)
    inst = mine[0]
    sends = inst.sends
    if len(sends) != len(case["seq"]) or any("outcome" not in s for s in sends):
        raise Violation("send_blocked", f"{len(sends)} sends recorded for {case['seq']}: "
                        f"{[s.get('outcome') for s in sends]}", backend=be)
    ws = proto.startswith("ws")
    state = "HANDSHAKE" if ws else "REQUEST"
    interesting = False
    valid_seen = False
    for i, (name, srec) in enumerate(zip(case["seq"], sends)):
        verdict, nstate = ws_expect(state, name) if ws else http_expect(state, name, proto)
        raised = srec["outcome"] != "ok"
        delta = srec["wire_after"] - srec["wire_before"]
        if raised and delta != 0:
            raise Violation("raised_but_wrote", f"send #{i} {name} in state {state} raised "
                            f"{srec['outcome']} after putting {delta} bytes on the wire",
                            backend=be, msg=name)
        if verdict == "raise" and not raised:
            raise Violation("invalid_message_accepted", f"send #{i} {name} in state {state} "
                            f"(sequence {case['seq']}) was accepted; {delta} bytes written",
                            backend=be, msg=name, state=state)
        if verdict == "ok" and raised:
            raise Violation("valid_message_rejected", f"send #{i} {name} in state {state} "
                            f"(sequence {case['seq']}) raised {srec['outcome']}", backend=be,
                            msg=name, state=state)
        if verdict == "raise" and valid_seen:
            interesting = True
        if verdict == "ok":
            valid_seen = True
        if verdict == "any":
            # follow what actually happened where the specification leaves it open
            state = state if raised else nstate
        elif verdict == "ok":
            state = nstate
    # ---- the wire stays a valid protocol prefix, at most one final head, no injected header
    supplied = supplied_headers(case)
    if proto == "h1" or proto == "ws1":
        data = conn.received()
        resps, leftover, err = parse_responses(data, ["GET"], conn.server_gone)
        if err:
            raise Violation("wire_corrupted", err, backend=be)
        if len(resps) > 1:
            raise Violation("second_response_head", f"{[r.status for r in resps]}", backend=be)
        for r in resps:
            scan_headers(r.headers, supplied, be, f"response {r.status}")
            for x in r.interim:
                scan_headers(x.headers, supplied, be, f"interim {x.status}")
            if r.status == 101:
                frames, consumed, ferr = parse_server_frames(leftover)
                if ferr:
                    raise Violation("wire_corrupted", f"after 101: {ferr}", backend=be)
            elif leftover:
                raise Violation("wire_corrupted", f"{len(leftover)} stray bytes after the "
                                f"response", backend=be)
        if proto == "ws1" and not resps and data:
            raise Violation("wire_corrupted", f"bytes without a response head: {data[:60]!r}",
                            backend=be)
    else:
        client = val["client"]
        data = conn.received()
        acct = FrameAccounting().decode(data)
        if acct.error:
            raise Violation("wire_corrupted", acct.error, backend=be)
        if client is not None and client.error:
            raise Violation("wire_corrupted", f"h2 client: {client.error}", backend=be)
        for sid, s in acct.streams.items():
            finals = 0
            for hb in s.header_blocks:
                scan_headers(hb, supplied, be, f"stream {sid}")
                d = dict(hb)
                if b":status" in d and not d[b":status"].startswith(b"1"):
                    finals += 1
            if sid % 2 == 1 and finals > 1:
                raise Violation("second_response_head", f"stream {sid}: {s.header_blocks}",
                                backend=be)
            if s.data_frames and not s.header_blocks:
                raise Violation("data_before_headers", f"stream {sid}", backend=be)
            if s.frames_after_end:
                raise Violation("frames_after_end", f"stream {sid}", backend=be)
    return {"interesting": interesting}


def run_case(case: Dict[str, Any]) -> CaseInfo:
    cfg = {"keep_alive_timeout": T_BIG}
    programs = {"/x": app_program(case), "/pushed": [["return"]]}

    async def sc(env: Any) -> Any:
        return await scenario(env, case)

    info = {}
    for be in BACKENDS:
        obs = run_sim(be, cfg, programs, sc, sched=case.get("sched", 0))
        info = judge(case, obs)
    table = WS_MSGS if case["proto"].startswith("ws") else HTTP_MSGS
    ctl = any(has_ctl(table[n]) for n in case["seq"])
    classes = ["proto=" + case["proto"], f"len={len(case['seq'])}"]
    if case.get("no_push"):
        classes.append("client_disabled_push")
    if ctl:
        classes.append("control_char")
    if info.get("interesting"):
        classes.append("invalid_after_valid")
    return CaseInfo(bool(info.get("interesting") or ctl), classes, evals=2)


@st.composite
def case_strategy(draw: Any, proto: str) -> Dict[str, Any]:
    names = sorted(WS_MSGS if proto.startswith("ws") else HTTP_MSGS)
    return {"proto": proto, "sched": draw(st.integers(0, 999)),
            "seq": draw(st.lists(st.sampled_from(names), min_size=1, max_size=6)),
            "no_push": draw(st.sampled_from([False, False, True])) if proto == "h2" else False}


def enumerate_short(tier: str) -> Any:
    maxlen = 2 if tier == "quick" else 3
    for proto in ("h1", "h2", "ws1", "ws2"):
        core = CORE_WS if proto.startswith("ws") else CORE_HTTP
        for n in range(1, maxlen + 1):
            for seq in itertools.product(core, repeat=n):
                yield {"proto": proto, "sched": 0, "seq": list(seq)}


@st.composite
def guided_strategy(draw: Any, proto: str) -> Dict[str, Any]:
    """Model-guided walk: at each step the reference automaton is asked which messages are valid
    in the state reached so far; two times out of three one of those is taken, otherwise any
    message. Uniform sequences rarely get past the second valid message; these reach the deep
    states (TRAILERS, CLOSED, CONNECTED, RESPONSE) and then try the invalid ones there."""
    ws = proto.startswith("ws")
    table = WS_MSGS if ws else HTTP_MSGS
    names = sorted(table)
    state = "HANDSHAKE" if ws else "REQUEST"
    seq: List[str] = []
    for _ in range(draw(st.integers(2, 10))):
        valid = [n for n in names
                 if (ws_expect(state, n) if ws else http_expect(state, n, proto))[0] == "ok"]
        if valid and draw(st.integers(0, 2)) > 0:
            name = draw(st.sampled_from(valid))
        else:
            name = draw(st.sampled_from(names))
        verdict, nstate = ws_expect(state, name) if ws else http_expect(state, name, proto)
        seq.append(name)
        if verdict == "ok":
            state = nstate
        elif verdict == "any":
            if nstate == "?":
                break  # the model cannot follow any further
            state = nstate
    return {"proto": proto, "sched": draw(st.integers(0, 999)), "seq": seq,
            "no_push": draw(st.sampled_from([False, False, True])) if proto == "h2" else False}


def parts() -> List[Part]:
    ps = [Part("short", run_case, enumerate=enumerate_short,
               rule="all sequences of length <= 2 (thorough: <= 3) over a 10-12 message core "
                    "alphabet per protocol")]
    for proto, q in (("h1", 500), ("h2", 500), ("ws1", 350), ("ws2", 350)):
        ps.append(Part(proto, run_case, strategy=(lambda p=proto: case_strategy(p)), quick=q,
                       thorough=q * 60, rule=f"random sequences of 1..6 messages, {proto}"))
    for proto, q in (("h1", 300), ("h2", 500), ("ws1", 300), ("ws2", 300)):
        ps.append(Part("guided_" + proto, run_case,
                       strategy=(lambda p=proto: guided_strategy(p)), quick=q, thorough=q * 60,
                       rule=f"{proto}: walks of up to 10 sends steered by the reference automaton "
                            f"into its deep states"))
    return ps
