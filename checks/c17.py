"""C17 - WSGI adapter conforms to PEP 3333."""
from __future__ import annotations

import os
import sys
import threading
from typing import Any, Dict, List, Optional

from hypothesis import strategies as st

from vlib.core import CaseInfo, Inconclusive, Part, Violation
from wire.h1 import b2s, parse_responses, s2b

PROPERTY = "C17"
LEVEL = "exploration"
RULE = (
    "requests (escaped / non-ASCII UTF-8 paths under generated root_path prefixes, repeated "
    "headers, bodies split into generated http.request messages, sizes around "
    "wsgi_max_body_size 0..64) x WSGI application shapes (list, generator, lazy start_response, "
    "iterator with close, raising before/after start_response and mid-iteration, no "
    "start_response, empty chunks) through WSGIWrapper, Asyncio/TrioWSGIMiddleware and the "
    "workers' TaskGroup.spawn_app; non-trivial = shape other than plain list, or size within "
    "+-1 of the limit, or a non-ASCII path"
)
ASSUMPTIONS = [
    "bulk cases call WSGIWrapper with synchronous stand-ins for sync_spawn/call_soon; the "
    "thread hand-off itself is exercised through the middleware classes and TaskGroup.spawn_app "
    "on real event loops (data and ordering asserted, never timing)",
]

SHAPES = ["list", "tuple", "generator", "lazy_iter", "iter_close", "empty_chunks",
          "raise_before_start", "raise_after_start", "raise_mid_iter", "no_start_response",
          # a response object (Django / werkzeug style): an iterable with close() whose
          # __iter__ returns a different object - close() belongs to the iterable (PEP 3333)
          "iterable_close", "iterable_close_gen", "iterable_close_raise",
          # start_response called again with exc_info before any output: PEP 3333 has the
          # stored status and headers replaced by the new ones
          "replace_before_output"]


@st.composite
def case_strategy(draw: Any, runners: List[str]) -> Dict[str, Any]:
    root = draw(st.sampled_from(["", "", "/api", "/a/b", "/é", "/r%20"]))
    rest_segs = draw(st.lists(st.one_of(
        st.text(alphabet="abcXYZ019-._~ %", min_size=1, max_size=6),
        st.text(alphabet=st.characters(min_codepoint=0xA1, max_codepoint=0x2FFF,
                                       exclude_categories=["Cs"]), min_size=1, max_size=3)),
        max_size=3))
    rest = ("/" + "/".join(rest_segs)) if rest_segs or draw(st.booleans()) else ""
    if root and draw(st.integers(0, 3)) == 0:
        # the mount prefix occurs again further down the path: only the leading one is SCRIPT_NAME
        rest = rest + root + draw(st.sampled_from(["", "/x", root]))
    outside = None
    if root and draw(st.integers(0, 7)) == 0:
        # a request path that does not lie under root_path: no SCRIPT_NAME / PATH_INFO split
        # can reflect it (the wrapper answers 404 itself)
        outside = draw(st.sampled_from(["/zz" + rest, root[:-1] or "/", "/", root[1:] + "/x"]))
        if outside.startswith(root) or not outside.startswith("/"):
            outside = "/zz"
    limit = draw(st.sampled_from([0, 1, 5, 16, 64, 64, 1 << 20]))
    size = draw(st.one_of(st.integers(0, 80),
                          st.sampled_from([max(0, limit - 1), limit, limit + 1])))
    if size > 200:
        size = 70
    nsplit = draw(st.integers(0, 4))
    splits = sorted(draw(st.lists(st.integers(0, max(0, size)), min_size=nsplit, max_size=nsplit)))
    hdrs = []
    names: List[str] = []
    for _ in range(draw(st.integers(0, 5))):
        if names and draw(st.integers(0, 2)) == 0:
            n = draw(st.sampled_from(names))
        else:
            n = draw(st.sampled_from(["accept", "x-custom-id", "cookie", "content-type",
                                      "x_under", "user-agent", "x-a"]))
        names.append(n)
        hdrs.append([n, draw(st.text(alphabet="abc019 ;=/é", max_size=8)).strip()])
    chunks = draw(st.lists(st.text(alphabet="xyz\x00\xff", max_size=6), max_size=4))
    return {
        "runner": draw(st.sampled_from(runners)),
        "scope_type": draw(st.sampled_from(["http"] * 9 + ["websocket"])),
        "method": draw(st.sampled_from(["GET", "POST", "PUT", "DELETE", "QUERY"])),
        "root_path": root, "rest": rest, "outside_path": outside,
        "query": draw(st.text(alphabet="abc=&%20+", max_size=10)),
        "http_version": draw(st.sampled_from(["1.0", "1.1", "2"])),
        "scheme": draw(st.sampled_from(["http", "https"])),
        "headers": hdrs, "body_len": size, "splits": splits, "limit": limit,
        "final_empty": draw(st.booleans()),
        "shape": draw(st.sampled_from(SHAPES)),
        "status": draw(st.sampled_from(["200 OK", "201 Created", "404 Not Found",
                                        "500 Internal Server Error", "299 Odd Reason Here"])),
        "resp_headers": draw(st.lists(st.sampled_from(
            [["Content-Type", "text/plain"], ["X-Mixed-Case", "V"], ["set-cookie", "a=1"],
             ["set-cookie", "b=2"], ["x-empty", ""],
             # PEP 3333 native strings: latin-1 code points stand for the octets to send
             ["Content-Disposition", "attachment; filename=caf\xe9.txt"],
             ["X-Echo", "\xfcber \xff"]]), max_size=4)),
        "chunks": chunks,
        "raise_at": draw(st.integers(0, 3)),
        "has_client": draw(st.booleans()),
        "slow_start": draw(st.sampled_from([False, False, True])),
    }


class Probe:
    def __init__(self) -> None:
        self.calls: List[dict] = []
        self.close_calls = 0
        self.threads: List[int] = []


def build_app(case: Dict[str, Any], probe: Probe) -> Any:
    shape = case["shape"]
    chunks = [s2b(c) for c in case["chunks"]]
    if shape == "empty_chunks":
        chunks = [b"", b"a", b"", b""] + chunks
    status = case["status"]
    rheaders = [(n, v) for n, v in case["resp_headers"]]

    class Iter:
        def __init__(self, lazy: bool, sr: Any, raise_at: Optional[int]) -> None:
            self.i = 0
            self.lazy = lazy
            self.sr = sr
            self.raise_at = raise_at

        def __iter__(self) -> "Iter":
            return self

        def __next__(self) -> bytes:
            if self.lazy and self.i == 0 and self.sr is not None:
                self.sr(status, rheaders)
                self.sr = None
            if self.raise_at is not None and self.i >= min(self.raise_at, len(chunks)):
                raise ValueError("scripted WSGI failure mid-iteration")
            if self.i >= len(chunks):
                raise StopIteration
            self.i += 1
            return chunks[self.i - 1]

        def close(self) -> None:
            probe.close_calls += 1

    class ResponseObject:
        def __init__(self, how: str) -> None:
            self.how = how

        def __iter__(self) -> Any:
            if self.how == "iterable_close":
                return iter(list(chunks))
            return self._gen()

        def _gen(self) -> Any:
            k = min(case["raise_at"], len(chunks)) if self.how == "iterable_close_raise" else None
            for i, c in enumerate(chunks):
                if k is not None and i >= k:
                    raise ValueError("scripted WSGI failure mid-iteration")
                yield c
            if k is not None:
                raise ValueError("scripted WSGI failure mid-iteration")

        def close(self) -> None:
            probe.close_calls += 1

    def app(environ: dict, start_response: Any) -> Any:
        rec = dict(environ)
        rec["wsgi.input.data"] = environ["wsgi.input"].read()
        probe.calls.append(rec)
        probe.threads.append(threading.get_ident())
        if shape == "raise_before_start":
            raise ValueError("scripted WSGI failure before start_response")
        if shape in ("list", "tuple", "iter_close", "empty_chunks", "raise_after_start",
                     "raise_mid_iter", "iterable_close", "iterable_close_gen",
                     "iterable_close_raise"):
            start_response(status, rheaders)
        if shape.startswith("iterable_close"):
            return ResponseObject(shape)
        if shape == "raise_after_start":
            raise ValueError("scripted WSGI failure after start_response")
        if shape in ("list", "empty_chunks"):
            return list(chunks)
        if shape == "tuple":
            return tuple(chunks)
        if shape == "iter_close":
            return Iter(False, None, None)
        if shape == "lazy_iter":
            return Iter(True, start_response, None)
        if shape == "replace_before_output":
            start_response("202 Accepted", [("X-First-Thought", "1")])

            def replace(s: str, h: list) -> None:
                try:
                    raise KeyError("found out late, before anything was output")
                except KeyError:
                    start_response(s, h, sys.exc_info())
            return Iter(True, replace, None)
        if shape == "raise_mid_iter":
            return Iter(False, None, case["raise_at"])
        if shape == "no_start_response":
            return Iter(False, None, None)
        if shape == "generator":
            def gen() -> Any:
                try:
                    start_response(status, rheaders)
                    for c in chunks:
                        yield c
                finally:
                    probe.close_calls += 1  # runs on exhaustion or on close()
            return gen()
        raise AssertionError(shape)

    return app, chunks


def make_scope(case: Dict[str, Any]) -> Dict[str, Any]:
    path = case.get("outside_path") or (case["root_path"] + case["rest"])
    headers = [(s2b(n), v.encode("latin-1")) for n, v in case["headers"]]
    scope: Dict[str, Any] = {
        "type": case["scope_type"], "http_version": case["http_version"],
        "asgi": {"spec_version": "2.1", "version": "3.0"},
        "method": case["method"], "scheme": case["scheme"], "path": path or "/",
        "raw_path": (path or "/").encode("utf-8"), "query_string": case["query"].encode("ascii"),
        "root_path": case["root_path"], "headers": headers,
        "client": ("192.0.2.7", 4242) if case["has_client"] else None,
        "server": ("198.51.100.1", 8443), "extensions": {}, "state": {},
    }
    if path == "":
        scope["root_path"] = ""
    return scope


def body_messages(case: Dict[str, Any]) -> List[dict]:
    body = bytes((i * 37 + 11) % 256 for i in range(case["body_len"]))
    cuts = [0] + [min(c, len(body)) for c in case["splits"]] + [len(body)]
    pieces = [body[a:b] for a, b in zip(cuts, cuts[1:])]
    msgs = []
    for i, p in enumerate(pieces):
        last = i == len(pieces) - 1
        msgs.append({"type": "http.request", "body": p,
                     "more_body": not last or case["final_empty"]})
    if case["final_empty"]:
        msgs.append({"type": "http.request", "body": b"", "more_body": False})
    return msgs


def run_sync(coro: Any) -> Any:
    try:
        coro.send(None)
    except StopIteration as e:
        return e.value
    coro.close()
    raise Violation("unexpected_suspension", "wrapper awaited something that never completes")


def drive(case: Dict[str, Any], probe: Probe, sent: List[dict]) -> Optional[BaseException]:
    """Runs the case through the selected runner; returns the exception that escaped, if any."""
    from hypercorn.app_wrappers import WSGIWrapper

    app, _ = build_app(case, probe)
    scope = make_scope(case)
    msgs = body_messages(case) if case["scope_type"] == "http" else \
        [{"type": "websocket.connect"}]
    runner = case["runner"]
    main_thread = threading.get_ident()
    probe.main_thread = main_thread  # type: ignore

    if runner == "wrapper":
        it = iter(msgs + [{"type": "http.disconnect"}] * 3)

        async def receive() -> dict:
            return next(it)

        async def send(m: dict) -> None:
            sent.append(m)

        async def sync_spawn(func: Any, *args: Any) -> Any:
            return func(*args)

        def call_soon(func: Any, *args: Any) -> Any:
            return run_sync(func(*args))

        try:
            run_sync(WSGIWrapper(app, case["limit"])(scope, receive, send, sync_spawn, call_soon))
        except Violation:
            raise
        except Exception as e:
            return e
        return None

    if runner == "asyncio_middleware":
        import asyncio

        from hypercorn.middleware import AsyncioWSGIMiddleware

        async def main() -> None:
            it = iter(msgs + [{"type": "http.disconnect"}] * 3)

            async def receive() -> dict:
                return next(it)

            async def send(m: dict) -> None:
                sent.append(m)

            await AsyncioWSGIMiddleware(app, case["limit"])(scope, receive, send)

        try:
            asyncio.run(main())
        except Exception as e:
            return e
        return None

    if runner == "trio_middleware":
        import trio

        from hypercorn.middleware import TrioWSGIMiddleware

        async def main_t() -> None:
            it = iter(msgs + [{"type": "http.disconnect"}] * 3)

            async def receive() -> dict:
                return next(it)

            async def send(m: dict) -> None:
                sent.append(m)

            await TrioWSGIMiddleware(app, case["limit"])(scope, receive, send)

        try:
            trio.run(main_t)
        except Exception as e:
            return e
        return None

    if runner in ("asyncio_taskgroup", "trio_taskgroup"):
        # the path the real server takes: TaskGroup.spawn_app with a WSGIWrapper
        from hypercorn.config import Config

        errors: List[str] = []

        class Log:
            async def exception(self, msg: str, *a: Any, **k: Any) -> None:
                import sys

                errors.append(repr(sys.exc_info()[1]))

        config = Config()
        config._log = Log()  # type: ignore
        done = []

        async def app_send(m: Optional[dict]) -> None:
            if m is None:
                done.append(True)
                return
            if case.get("slow_start") and m.get("type") == "http.response.start":
                # a client that is slow to take the response head: the WSGI thread is paced by
                # each send, so nothing may overtake it
                if runner == "asyncio_taskgroup":
                    import asyncio as _a

                    await _a.sleep(0.02)
                else:
                    import trio as _t

                    await _t.sleep(0.02)
            sent.append(m)

        if runner == "asyncio_taskgroup":
            import asyncio

            from hypercorn.asyncio.task_group import TaskGroup

            async def main2() -> None:
                loop = asyncio.get_event_loop()
                async with TaskGroup(loop) as tg:
                    put = await tg.spawn_app(WSGIWrapper(app, case["limit"]), config, scope,
                                             app_send)
                    for m in msgs:
                        await put(m)

            asyncio.run(main2())
        else:
            import trio

            from hypercorn.trio.task_group import TaskGroup as TTaskGroup

            async def main3() -> None:
                async with TTaskGroup() as tg:
                    put = await tg.spawn_app(WSGIWrapper(app, case["limit"]), config, scope,
                                             app_send)
                    for m in msgs:
                        try:
                            await put(m)
                        except trio.BrokenResourceError:
                            break

            trio.run(main3)
        if not done:
            raise Violation("app_never_finished", f"runner={runner}")
        if errors:
            return RuntimeError("logged: " + errors[0])
        return None
    raise AssertionError(runner)


def run_case(case: Dict[str, Any]) -> CaseInfo:
    probe = Probe()
    sent: List[dict] = []
    exc = drive(case, probe, sent)
    shape = case["shape"]
    _, chunks = build_app(case, Probe())
    classes = ["runner=" + case["runner"], "shape=" + shape]
    non_ascii = any(ord(ch) > 127 for ch in case["root_path"] + case["rest"])
    near_limit = abs(case["body_len"] - case["limit"]) <= 1

    if case["scope_type"] == "websocket":
        if probe.calls:
            raise Violation("websocket_reached_wsgi_app", "")
        if [m.get("type") for m in sent] != ["websocket.close"] or exc is not None:
            raise Violation("websocket_not_refused", f"sent={sent} exc={exc!r}")
        return CaseInfo(False, classes + ["websocket"])

    starts = [m for m in sent if m["type"] == "http.response.start"]
    bodies = [m for m in sent if m["type"] == "http.response.body"]
    if case["body_len"] > case["limit"]:
        if probe.calls:
            raise Violation("oversize_body_reached_app",
                            f"body {case['body_len']} > limit {case['limit']}")
        if len(starts) != 1 or starts[0]["status"] != 400 or exc is not None:
            raise Violation("oversize_not_400", f"sent={sent} exc={exc!r}")
        return CaseInfo(near_limit, classes + ["over_limit"])

    if case.get("outside_path"):
        if probe.calls:
            env = probe.calls[0]
            got = (env.get("SCRIPT_NAME", "") + env.get("PATH_INFO", ""))
            if got != case["outside_path"].encode("utf-8").decode("latin-1"):
                raise Violation("environ_mismatch", f"request path {case['outside_path']!r} is "
                                f"not under root_path {case['root_path']!r}, application called "
                                f"with SCRIPT_NAME {env.get('SCRIPT_NAME')!r} PATH_INFO "
                                f"{env.get('PATH_INFO')!r}", key="SCRIPT_NAME+PATH_INFO")
        elif len(starts) != 1 or starts[0]["status"] != 404 or exc is not None \
                or not bodies or bodies[-1].get("more_body"):
            raise Violation("path_outside_root_not_404", f"sent={sent} exc={exc!r}")
        return CaseInfo(True, classes + ["outside_root_path"])

    if len(probe.calls) != 1:
        raise Violation("wsgi_call_count", f"{len(probe.calls)} calls (body {case['body_len']}, "
                        f"limit {case['limit']})", shape=shape)
    if case["runner"] != "wrapper" and probe.threads[0] == probe.main_thread:  # type: ignore
        raise Violation("wsgi_called_on_loop_thread", f"runner={case['runner']}")
    env = probe.calls[0]
    body = bytes((i * 37 + 11) % 256 for i in range(case["body_len"]))
    path = case["root_path"] + case["rest"]
    want_script = case["root_path"] if path != "" else ""
    rest = case["rest"] if path != "" else "/"
    exp = {
        "REQUEST_METHOD": case["method"],
        "SCRIPT_NAME": want_script.encode("utf-8").decode("latin-1"),
        "QUERY_STRING": case["query"],
        "SERVER_PROTOCOL": "HTTP/" + case["http_version"],
        "wsgi.url_scheme": case["scheme"],
        "wsgi.input.data": body,
        "SERVER_NAME": "198.51.100.1",
    }
    for k, v in exp.items():
        if env.get(k) != v:
            raise Violation("environ_mismatch", f"{k}: {env.get(k)!r} != {v!r}", key=k)
    # the wsgi.* variables PEP 3333 requires, with the values that are true of this server: the
    # application object is called again and again in one process (run_once false), possibly
    # by several threads at once (multithread true)
    if env.get("wsgi.version") != (1, 0) or env.get("wsgi.run_once") is not False \
            or env.get("wsgi.multithread") is not True \
            or not hasattr(env.get("wsgi.errors"), "write"):
        raise Violation("environ_mismatch", "wsgi.* variables: " + repr(
            {k: env.get(k) for k in ("wsgi.version", "wsgi.run_once", "wsgi.multithread",
                                     "wsgi.multiprocess", "wsgi.errors")}), key="wsgi.*")
    want_pi = rest.encode("utf-8").decode("latin-1")
    if env.get("PATH_INFO") != want_pi and not (want_pi == "" and env.get("PATH_INFO") == "/"):
        raise Violation("environ_mismatch", f"PATH_INFO: {env.get('PATH_INFO')!r} != {want_pi!r}",
                        key="PATH_INFO")
    if str(env.get("SERVER_PORT")) != "8443":
        raise Violation("environ_mismatch", f"SERVER_PORT {env.get('SERVER_PORT')!r}",
                        key="SERVER_PORT")
    if case["has_client"] and env.get("REMOTE_ADDR") != "192.0.2.7":
        raise Violation("environ_mismatch", f"REMOTE_ADDR {env.get('REMOTE_ADDR')!r}",
                        key="REMOTE_ADDR")
    want_vars: Dict[str, str] = {}
    for n, v in case["headers"]:
        key = {"content-type": "CONTENT_TYPE", "content-length": "CONTENT_LENGTH"}.get(
            n, "HTTP_" + n.upper().replace("-", "_"))
        want_vars[key] = (want_vars[key] + "," + v) if key in want_vars else v
    for k, v in want_vars.items():
        if env.get(k) != v:
            raise Violation("environ_mismatch", f"{k}: {env.get(k)!r} != {v!r}", key="HTTP_*")
    extra = [k for k in env if (k.startswith("HTTP_") or k in ("CONTENT_TYPE", "CONTENT_LENGTH"))
             and k not in want_vars]
    if extra:
        raise Violation("environ_invented", f"{extra}")

    # ---- response / close / errors
    has_close = shape in ("iter_close", "lazy_iter", "raise_mid_iter", "no_start_response",
                          "replace_before_output",
                          "generator", "iterable_close", "iterable_close_gen",
                          "iterable_close_raise")
    want_close = 1 if has_close else 0
    status = int(case["status"].split(" ")[0])
    want_headers = [(n.lower().encode("latin-1"), v.encode("latin-1"))
                    for n, v in case["resp_headers"]]
    got_body = b"".join(m.get("body", b"") for m in bodies)
    if shape in ("list", "tuple", "generator", "lazy_iter", "iter_close", "empty_chunks",
                 "iterable_close", "iterable_close_gen", "replace_before_output"):
        if exc is not None:
            raise Violation("wsgi_valid_app_failed", f"shape={shape}: {exc!r}", shape=shape)
        if len(starts) != 1 or starts[0]["status"] != status:
            raise Violation("wsgi_status", f"shape={shape}: starts={starts}", shape=shape)
        got_headers = [(bytes(n).lower(), bytes(v)) for n, v in starts[0]["headers"]]
        if got_headers != want_headers:
            raise Violation("wsgi_headers", f"{got_headers} != {want_headers}", shape=shape)
        if got_body != b"".join(chunks):
            raise Violation("wsgi_body", f"{got_body!r} != {b''.join(chunks)!r}", shape=shape)
        if sent and sent[0]["type"] != "http.response.start":
            raise Violation("wsgi_order", f"{[m['type'] for m in sent]}", shape=shape)
        if not bodies or bodies[-1].get("more_body", False):
            raise Violation("wsgi_not_finished", f"{[m for m in sent][-2:]}", shape=shape)
    else:
        if exc is None:
            raise Violation("wsgi_error_swallowed", f"shape={shape}: no error surfaced, "
                            f"sent={[m['type'] for m in sent]}", shape=shape)
        if shape in ("raise_before_start", "raise_after_start", "no_start_response") and starts:
            raise Violation("wsgi_response_started_on_error", f"shape={shape}: {starts}",
                            shape=shape)
        if shape in ("raise_mid_iter", "iterable_close_raise"):
            k = min(case["raise_at"], len(chunks))
            if got_body != b"".join(chunks[:k]):
                raise Violation("wsgi_body", f"before failure {got_body!r} != "
                                f"{b''.join(chunks[:k])!r}", shape=shape)
        if bodies and not bodies[-1].get("more_body", False):
            raise Violation("wsgi_error_completed_response", f"shape={shape}", shape=shape)
    if probe.close_calls != want_close:
        raise Violation("wsgi_close_count", f"shape={shape}: close() called "
                        f"{probe.close_calls} times, want {want_close}", shape=shape)
    if near_limit:
        classes.append("at_limit")
    return CaseInfo(shape != "list" or near_limit or non_ascii, classes)


# --------------------------------------------------------------------------- concurrent requests


@st.composite
def concurrent_case(draw: Any) -> Dict[str, Any]:
    """2..3 requests in flight through ONE WSGIWrapper (it is a per-worker singleton): body
    messages of the requests interleave in a generated order."""
    n = draw(st.integers(2, 3))
    limit = draw(st.sampled_from([8, 64, 64, 1 << 20]))
    reqs = []
    for i in range(n):
        blen = draw(st.one_of(st.integers(0, 40), st.sampled_from([limit - 1, limit, limit + 1])))
        blen = max(0, min(blen, 5000))
        k = draw(st.integers(1, 4))
        reqs.append({"body_len": blen, "seed": draw(st.integers(0, 250)),
                     "splits": sorted(draw(st.lists(st.integers(0, max(blen, 1)), max_size=k)))})
    slots = [i for i, r in enumerate(reqs) for _ in range(len(r["splits"]) + 1)]
    order = draw(st.permutations(slots))
    return {"limit": limit, "requests": reqs, "order": list(order),
            "runner": draw(st.sampled_from(["asyncio", "trio"]))}


def run_concurrent(case: Dict[str, Any]) -> CaseInfo:
    from hypercorn.app_wrappers import WSGIWrapper

    reqs = case["requests"]
    bodies = [bytes((r["seed"] + 7 * j + i) % 256 for j in range(r["body_len"]))
              for i, r in enumerate(reqs)]
    pieces = []
    for r, body in zip(reqs, bodies):
        cuts = [0] + [min(c, len(body)) for c in r["splits"]] + [len(body)]
        pieces.append([body[a:b] for a, b in zip(cuts, cuts[1:])])
    seen: Dict[str, bytes] = {}

    def app(environ: dict, start_response: Any) -> Any:
        data = environ["wsgi.input"].read()
        seen[environ["PATH_INFO"]] = data
        start_response("200 OK", [("x-req", environ["PATH_INFO"])])
        return [b"echo:", data]

    sent: List[List[dict]] = [[] for _ in reqs]
    errors: List[Optional[BaseException]] = [None for _ in reqs]

    async def drive_all(lib: str) -> None:
        if lib == "asyncio":
            import asyncio

            queues: List[Any] = [asyncio.Queue() for _ in reqs]
            recv = [q.get for q in queues]
            put = [q.put for q in queues]
            pause = lambda: asyncio.sleep(0)  # noqa: E731
        else:
            import trio

            chans = [trio.open_memory_channel(100) for _ in reqs]
            recv = [c[1].receive for c in chans]
            put = [c[0].send for c in chans]
            pause = trio.lowlevel.checkpoint
        wrapper = WSGIWrapper(app, case["limit"])

        async def sync_spawn(func: Any, *args: Any) -> Any:
            return func(*args)

        def call_soon(func: Any, *args: Any) -> Any:
            return run_sync(func(*args))

        async def one(i: int) -> None:
            scope = {"type": "http", "http_version": "1.1", "method": "POST", "scheme": "http",
                     "path": f"/r{i}", "raw_path": f"/r{i}".encode(), "query_string": b"",
                     "root_path": "", "headers": [], "client": ("192.0.2.7", 1),
                     "server": ("198.51.100.1", 80), "extensions": {}, "state": {}}

            async def send(m: dict) -> None:
                sent[i].append(m)

            try:
                await wrapper(scope, recv[i], send, sync_spawn, call_soon)
            except Exception as e:  # judged below
                errors[i] = e

        async def feeder() -> None:
            nxt = [0 for _ in reqs]
            for i in case["order"]:
                k = nxt[i]
                nxt[i] += 1
                await put[i]({"type": "http.request", "body": pieces[i][k],
                              "more_body": k < len(pieces[i]) - 1})
                for _ in range(3):
                    await pause()
            for i in range(len(reqs)):
                await put[i]({"type": "http.disconnect"})

        if lib == "asyncio":
            import asyncio

            tasks = [asyncio.ensure_future(one(i)) for i in range(len(reqs))]
            await feeder()
            await asyncio.wait_for(asyncio.gather(*tasks), 30)
        else:
            import trio

            with trio.fail_after(30):
                async with trio.open_nursery() as nursery:
                    for i in range(len(reqs)):
                        nursery.start_soon(one, i)
                    await feeder()

    if case["runner"] == "asyncio":
        import asyncio

        asyncio.run(drive_all("asyncio"))
    else:
        import trio

        trio.run(drive_all, "trio")
    near = False
    for i, (r, body) in enumerate(zip(reqs, bodies)):
        starts = [m for m in sent[i] if m["type"] == "http.response.start"]
        got = b"".join(m.get("body", b"") for m in sent[i] if m["type"] == "http.response.body")
        near = near or abs(r["body_len"] - case["limit"]) <= 1
        if r["body_len"] > case["limit"]:
            if f"/r{i}" in seen or len(starts) != 1 or starts[0]["status"] != 400:
                raise Violation("concurrent_oversize", f"request {i} ({r['body_len']} bytes, limit "
                                f"{case['limit']}): reached app={f'/r{i}' in seen} starts={starts}")
            continue
        if errors[i] is not None:
            raise Violation("concurrent_request_failed", f"request {i}: {errors[i]!r}")
        if seen.get(f"/r{i}") != body:
            raise Violation("concurrent_body_mixed", f"request {i}: wsgi.input held "
                            f"{seen.get(f'/r{i}')!r}, the client sent {body!r} (order "
                            f"{case['order']})")
        if len(starts) != 1 or starts[0]["status"] != 200 or got != b"echo:" + body:
            raise Violation("concurrent_response_mixed", f"request {i}: {starts} {got!r}")
    interleaved = any(a != b for a, b in zip(case["order"], sorted(case["order"])))
    return CaseInfo(interleaved, [f"n={len(reqs)}", "runner=" + case["runner"],
                                  "interleaved" if interleaved else "sequential"]
                    + (["at_limit"] if near else []), evals=len(reqs))


# --------------------------------------------------------------------------- through serve()


@st.composite
def serve_case(draw: Any) -> Dict[str, Any]:
    limit = draw(st.sampled_from([0, 7, 64, 1000]))
    sizes = draw(st.lists(st.sampled_from([0, max(0, limit - 1), limit, limit + 1, limit + 50]),
                          min_size=1, max_size=3))
    return {"backend": draw(st.sampled_from(["asyncio", "trio"])), "limit": limit,
            "sizes": sizes, "chunked": draw(st.booleans())}


def run_serve_case(case: Dict[str, Any]) -> CaseInfo:
    """The public entry points: hypercorn.asyncio.serve / hypercorn.trio.serve with mode='wsgi'
    on a unix socket, real loop, real threads; asserts data only, no timing."""
    import shutil
    import tempfile
    from asyncio import TimeoutError as asyncio_TimeoutError

    from hypercorn.config import Config

    work = os.path.join(os.path.dirname(os.path.dirname(os.path.abspath(__file__))), ".work")
    os.makedirs(work, exist_ok=True)
    tmp = tempfile.mkdtemp(prefix="c17s-", dir=work)
    path = os.path.join(tmp, "s.sock")
    called: List[int] = []

    def app(environ: dict, start_response: Any) -> Any:
        data = environ["wsgi.input"].read()
        called.append(len(data))
        start_response("200 OK", [("content-length", str(len(data)))])
        return [data]

    config = Config()
    config.bind = ["unix:" + path]
    config.wsgi_max_body_size = case["limit"]
    config.accesslog = None
    config.errorlog = None
    results: List[tuple] = []

    def request(n: int) -> bytes:
        body = bytes((i * 13 + n) % 256 for i in range(n))
        if case["chunked"] and n:
            return (b"POST /s HTTP/1.1\r\nHost: x\r\nConnection: close\r\n"
                    b"Transfer-Encoding: chunked\r\n\r\n%x\r\n" % n) + body + b"\r\n0\r\n\r\n"
        return b"POST /s HTTP/1.1\r\nHost: x\r\nConnection: close\r\nContent-Length: %d\r\n\r\n" \
            % n + body

    try:
        if case["backend"] == "asyncio":
            import asyncio

            from hypercorn.asyncio import serve

            async def main() -> None:
                stop = asyncio.Event()
                task = asyncio.ensure_future(serve(app, config, shutdown_trigger=stop.wait,
                                                   mode="wsgi"))
                try:
                    for n in case["sizes"]:
                        for _ in range(400):
                            try:
                                r, w = await asyncio.open_unix_connection(path)
                                break
                            except OSError:
                                if task.done():
                                    task.result()
                                await asyncio.sleep(0.01)
                        else:
                            raise Violation("serve_not_listening", "asyncio serve() never "
                                            "accepted a connection")
                        w.write(request(n))
                        results.append((n, await asyncio.wait_for(r.read(), 30)))
                        w.close()
                finally:
                    stop.set()
                    await asyncio.wait_for(task, 30)

            asyncio.run(main())
        else:
            import trio

            from hypercorn.trio import serve as tserve

            async def tmain() -> None:
                stop = trio.Event()
                with trio.fail_after(60):
                    async with trio.open_nursery() as nursery:
                        nursery.start_soon(lambda: tserve(app, config, shutdown_trigger=stop.wait,
                                                          mode="wsgi"))
                        try:
                            for n in case["sizes"]:
                                for _ in range(400):
                                    try:
                                        sock = await trio.open_unix_socket(path)
                                        break
                                    except OSError:
                                        await trio.sleep(0.01)
                                else:
                                    raise Violation("serve_not_listening", "trio serve() never "
                                                    "accepted a connection")
                                await sock.send_all(request(n))
                                data = b""
                                while True:
                                    piece = await sock.receive_some(65536)
                                    if not piece:
                                        break
                                    data += piece
                                results.append((n, data))
                                await sock.aclose()
                        finally:
                            stop.set()

            try:
                trio.run(tmain)
            except BaseExceptionGroup as g:
                leaf: BaseException = g
                while isinstance(leaf, BaseExceptionGroup) and len(leaf.exceptions) == 1:
                    leaf = leaf.exceptions[0]
                if isinstance(leaf, Violation):
                    raise leaf
                if isinstance(leaf, trio.TooSlowError):
                    raise Inconclusive("wall-clock budget of the real-time serve case used up")
                raise Violation("serve_failed", f"trio serve() with a WSGI application: "
                                f"{leaf!r}", backend="trio")
    except (Violation, Inconclusive):
        raise
    except (TimeoutError, asyncio_TimeoutError) as e:
        raise Inconclusive(f"wall-clock budget of the real-time serve case used up: {e!r}")
    except Exception as e:
        raise Violation("serve_failed", f"{case['backend']} serve() with a WSGI application: "
                        f"{e!r}", backend=case["backend"])
    finally:
        shutil.rmtree(tmp, ignore_errors=True)
    want_calls = [n for n in case["sizes"] if n <= case["limit"]]
    if sorted(called) != sorted(want_calls):
        raise Violation("serve_limit_not_applied", f"wsgi_max_body_size={case['limit']}: the "
                        f"application was called with bodies of {called}, expected {want_calls} "
                        f"(sent {case['sizes']})", backend=case["backend"])
    for n, raw in results:
        resps, _, err = parse_responses(raw, ["POST"], True)
        status = resps[0].status if resps else None
        if n > case["limit"]:
            if status != 400:
                raise Violation("oversize_not_400", f"{n} > {case['limit']}: {status} {err}",
                                backend=case["backend"])
        elif status != 200 or resps[0].body != bytes((i * 13 + n) % 256 for i in range(n)):
            raise Violation("serve_echo_wrong", f"{n} bytes: {status} {err}",
                            backend=case["backend"])
    near = any(abs(n - case["limit"]) <= 1 for n in case["sizes"])
    return CaseInfo(near, ["backend=" + case["backend"], f"limit={case['limit']}"],
                    evals=len(case["sizes"]))


# ---- the client goes away while the request body is still arriving

@st.composite
def gone_case(draw: Any) -> Dict[str, Any]:
    return {"pieces": draw(st.lists(st.integers(0, 40), min_size=0, max_size=4)),
            "limit": draw(st.sampled_from([64, 1 << 16])),
            "declared": draw(st.booleans())}


def run_gone(case: Dict[str, Any]) -> CaseInfo:
    """http.disconnect before the body is complete: the wrapper must stop waiting for request
    messages at once (in the server nothing more would ever arrive)."""
    from hypercorn.app_wrappers import WSGIWrapper

    calls: List[bytes] = []

    def app(environ: dict, start_response: Any) -> Any:
        calls.append(environ["wsgi.input"].read())
        start_response("200 OK", [])
        return [b"ok"]

    msgs = [{"type": "http.request", "body": b"x" * n, "more_body": True} for n in case["pieces"]]
    msgs.append({"type": "http.disconnect"})
    it = iter(msgs)

    class Hang(Exception):
        pass

    async def receive() -> dict:
        try:
            return next(it)
        except StopIteration:
            raise Hang()  # in the server this receive() would wait for ever

    sent: List[dict] = []

    async def send(m: dict) -> None:
        sent.append(m)

    async def sync_spawn(func: Any, *args: Any) -> Any:
        return func(*args)

    def call_soon(func: Any, *args: Any) -> Any:
        return run_sync(func(*args))

    headers = [(b"host", b"x")]
    if case["declared"]:
        headers.append((b"content-length", str(sum(case["pieces"]) + 10).encode()))
    scope = {"type": "http", "http_version": "1.1", "method": "POST", "scheme": "http",
             "path": "/up", "raw_path": b"/up", "query_string": b"", "root_path": "",
             "headers": headers, "client": ("192.0.2.7", 1), "server": ("198.51.100.1", 8443),
             "asgi": {"version": "3.0"}, "extensions": {}}
    try:
        run_sync(WSGIWrapper(app, case["limit"])(scope, receive, send, sync_spawn, call_soon))
    except Hang:
        raise Violation("wsgi_waits_after_disconnect", f"after http.disconnect (body pieces "
                        f"{case['pieces']}) the wrapper went on waiting for request messages")
    except Violation:
        raise
    except Exception as e:  # a plain scope, a plain application: the wrapper has no reason
        raise Violation("wsgi_wrapper_raised", f"{e!r} (body pieces {case['pieces']})")
    # (whether the application is still called, with what had arrived, is left open: the
    # statement speaks of requests, and PEP 3333 does not know aborted ones - hypercorn calls it)
    if len(calls) > 1:
        raise Violation("wsgi_call_count", f"{len(calls)} calls for one aborted request")
    return CaseInfo(bool(case["pieces"]), [f"pieces={len(case['pieces'])}",
                                           "called" if calls else "not_called"])


def parts() -> List[Part]:
    return [
        Part("gone", run_gone, strategy=gone_case, quick=200, thorough=4000,
             rule="client disconnects after 0..4 body messages, before the body is complete"),
        Part("serve", run_serve_case, strategy=serve_case, quick=64, thorough=1500,
             rule="hypercorn.asyncio.serve / hypercorn.trio.serve(mode='wsgi') on a unix socket: "
                  "the configured body limit reaches the wrapper, bodies echo"),
        Part("concurrent", run_concurrent, strategy=concurrent_case, quick=600, thorough=20000,
             rule="2..3 requests in flight through one WSGIWrapper, body messages interleaved"),
        Part("wrapper", run_case, strategy=lambda: case_strategy(["wrapper"]),
             quick=4000, thorough=100000, rule="WSGIWrapper driven synchronously"),
        Part("threads", run_case,
             strategy=lambda: case_strategy(["asyncio_middleware", "trio_middleware",
                                             "asyncio_taskgroup", "trio_taskgroup"]),
             quick=640, thorough=12000,
             rule="same cases through Asyncio/TrioWSGIMiddleware and both workers' "
                  "TaskGroup.spawn_app on real loops with real threads"),
    ]
