"""C09 - HTTP/2 flow control is respected and multiplexed delivery is live and ordered."""
from __future__ import annotations

from typing import Any, Dict, List, Optional

import h2.settings
from hyperframe.frame import (DataFrame, Frame, HeadersFrame, RstStreamFrame, SettingsFrame,
                              WindowUpdateFrame)
from hypothesis import strategies as st

from gen.http import make_body
from sim.run import BACKENDS, run_sim
from vlib.core import CaseInfo, Part, Violation
from wire.h1 import b2s
from wire.h2c import H2Client

PROPERTY = "C09"
LEVEL = "exploration"
RULE = (
    "1..6 concurrent streams with generated response sizes / chunkings / inter-chunk delays x "
    "client SETTINGS (initial window 0, 1, small, default, larger than the response; max frame "
    "size) x operation sequences of WINDOW_UPDATE (stream and connection level, arbitrary "
    "increments and order), SETTINGS window changes up and down, PRIORITY (dependencies, "
    "exclusive, before HEADERS), RST_STREAM and virtual delays; oracle = own window accounting "
    "over the decoded frames in causal order (credit counted from sending, reductions from the "
    "server's SETTINGS ACK), per-stream in-order prefix / completion / single END_STREAM, "
    "progress invariant at quiescent points, step-counting spin detector on both event loops; "
    "non-trivial = some window reached zero, or >= 2 streams carried data"
)
ASSUMPTIONS = [
    "the h2 library (client role) encodes the client's frames; the server's bytes are decoded "
    "with hyperframe and accounted independently of h2's own window bookkeeping",
]
T_BIG = 100000.0
DEFAULT_WINDOW = 65535


@st.composite
def stream_spec(draw: Any, i: int, n: int) -> Dict[str, Any]:
    nchunks = draw(st.integers(0, 4))
    return {
        "chunks": [draw(st.sampled_from([0, 1, 10, 1000, 16384, 20000, 70000]))
                   for _ in range(nchunks)],
        "delay": draw(st.sampled_from([0, 0, 0.1, 1.0])),
        # dependencies point at earlier streams only: known finding C09-1 (a dependency cycle
        # leaves a stale entry in the priority tree that kills the send task) is excluded by
        # construction; the committed replay keeps reporting it
        "prio": draw(st.one_of(st.none(), st.fixed_dictionaries({
            "dep": st.integers(0, i), "weight": st.integers(1, 256), "excl": st.booleans(),
            "before_headers": st.booleans()}))),
    }


@st.composite
def case_strategy(draw: Any) -> Dict[str, Any]:
    n = draw(st.integers(1, 6))
    streams = [draw(stream_spec(i, n)) for i in range(n)]
    ops = []
    for _ in range(draw(st.integers(0, 10))):
        kind = draw(st.sampled_from(["wu_stream", "wu_stream", "wu_conn", "wu_conn",
                                     "settings_win", "rst", "sleep", "prio", "settle",
                                     "wu_prio"]))
        if kind == "wu_prio":
            # credit for a stream and a PRIORITY frame for it in one write: the reader handles
            # both before the send task runs
            s_ = draw(st.integers(0, n - 1))
            ops.append({"op": "wu_stream", "s": s_, "join": True,
                        "n": draw(st.sampled_from([16384, 65535, 200000]))})
            kind = "prio_same"
        if kind == "wu_stream":
            ops.append({"op": kind, "s": draw(st.integers(0, n - 1)),
                        "n": draw(st.sampled_from([1, 2, 100, 16384, 65535, 200000]))})
        elif kind == "wu_conn":
            ops.append({"op": kind, "n": draw(st.sampled_from([1, 100, 16384, 65535, 1000000]))})
        elif kind == "settings_win":
            ops.append({"op": kind, "w": draw(st.sampled_from([0, 1, 100, 20000, 65535,
                                                               1000000]))})
        elif kind == "rst":
            ops.append({"op": kind, "s": draw(st.integers(0, n - 1))})
        elif kind == "sleep":
            ops.append({"op": kind, "dt": draw(st.sampled_from([0.05, 0.5, 2.0]))})
        elif kind in ("prio", "prio_same"):
            s_ = ops[-1]["s"] if kind == "prio_same" else draw(st.integers(0, n - 1))
            ops.append({"op": "prio", "s": s_,
                        "dep": draw(st.integers(0, s_)), "weight": draw(st.integers(1, 256)),
                        "excl": draw(st.booleans())})
        else:
            ops.append({"op": "settle"})
        # frames of consecutive operations may share one write (and one read on the server)
        if ops[-1]["op"] not in ("sleep", "settle") and draw(st.integers(0, 3)) == 0:
            ops[-1]["join"] = True
    if draw(st.integers(0, 3)) == 0:
        # a last word once everything has settled: the connection window is opened wide, then a
        # stalled stream gets credit and a PRIORITY frame in one write - and nothing after it
        s_ = draw(st.integers(0, n - 1))
        ops += [{"op": "settle"}, {"op": "wu_conn", "n": 1000000}, {"op": "settle"},
                {"op": "wu_stream", "s": s_, "n": draw(st.sampled_from([65535, 200000])),
                 "join": True},
                {"op": "prio", "s": s_, "dep": draw(st.integers(0, s_)),
                 "weight": draw(st.integers(1, 256)), "excl": draw(st.booleans())}]
    case = {
        "sched": draw(st.integers(0, 999)),
        "init_win": draw(st.sampled_from([None, None, 0, 1, 1000, 20000, 1 << 20])),
        "max_frame": draw(st.sampled_from([None, None, 16384, 30000])),
        "streams": streams, "ops": ops,
    }
    # known finding C09-1: exclude the re-prioritisations under an own descendant (counted)
    for _ in range(12):
        bad = cycle_steps(case)
        if not bad:
            break
        case["adjusted"] = "priority_cycle"
        first = bad[0]
        if first.startswith("op "):
            case["ops"][int(first[3:])] = {"op": "settle"}
        else:
            case["streams"][int(first.split()[1])]["prio"] = None
    return case


def cycle_steps(case: Dict[str, Any]) -> List[str]:
    """Reference model of the RFC 7540 5.3 dependency tree (closed streams are kept: a
    superset). Returns the priority signals that make a stream depend on one of its own
    descendants - the re-prioritisation the `priority` library mishandles (known finding
    C09-1). An exclusive insertion adopts the parent's other children, so such a step needs
    no dependency on a *later* stream."""
    n = len(case["streams"])
    sids = [1 + 2 * i for i in range(n)]
    parent: Dict[int, int] = {}

    def dep_of(p: Dict[str, Any], own: int) -> int:
        d = 0 if p["dep"] == 0 else sids[(p["dep"] - 1) % n]
        return 0 if d == own else d

    def is_descendant(a: int, b: int) -> bool:  # is b below a?
        seen = set()
        while b in parent and b not in seen:
            seen.add(b)
            b = parent[b]
            if b == a:
                return True
        return False

    out: List[str] = []

    def signal(sid: int, p: Dict[str, Any], what: str) -> None:
        d = dep_of(p, sid)
        if d != 0 and d not in parent:
            parent[d] = 0  # a dependency on an idle stream creates it with default priority
        if sid in parent and d != 0 and is_descendant(sid, d):
            out.append(what)
            parent[d] = parent[sid]  # RFC: the descendant is first moved up
        if p["excl"]:
            for c, q in list(parent.items()):
                if q == d and c != sid:
                    parent[c] = sid
        parent[sid] = d

    for i, spec in enumerate(case["streams"]):
        if spec["prio"]:
            signal(sids[i], spec["prio"], f"stream {i} opening priority")
        elif sids[i] not in parent:
            parent[sids[i]] = 0
    for k, op in enumerate(case["ops"]):
        if op["op"] == "prio":
            signal(sids[op["s"]], op, f"op {k}")
    return out


def program(spec: Dict[str, Any], i: int) -> list:
    prog: list = [["recv_all"], ["send", {"type": "http.response.start", "status": 200,
                                          "headers": []}, "tolerate"]]
    for j, n in enumerate(spec["chunks"]):
        if spec["delay"]:
            prog.append(["sleep", spec["delay"]])
        prog.append(["send", {"type": "http.response.body", "body": b2s(make_body(n, i * 7 + j)),
                              "more_body": True}, "tolerate"])
    prog.append(["send", {"type": "http.response.body", "body": "", "more_body": False},
                 "tolerate"])
    return prog


def body_of(spec: Dict[str, Any], i: int) -> bytes:
    return b"".join(make_body(n, i * 7 + j) for j, n in enumerate(spec["chunks"]))


class Ledger:
    """Own flow-control accounting (upper bounds, see RULE)."""

    def __init__(self, init_win: int, max_frame: int, be: str) -> None:
        self.be = be
        self.conn = DEFAULT_WINDOW
        self.init = init_win          # value the server may be using for new credit
        self.acked_init = init_win    # value certainly in force (after the server's ACK)
        self.pending: List[int] = []  # initial-window values sent, not yet acknowledged
        self.stream: Dict[int, int] = {}
        self.max_frame = max_frame
        self.data: Dict[int, bytearray] = {}
        self.ended: Dict[int, int] = {}
        self.reset_by_client: set = set()
        self.reset_by_server: Dict[int, int] = {}
        self.pos = 0
        self.cpos = 0
        self.conn_wu_seen = 0
        self.conn_wu_explicit = 0
        self.zero_seen = False
        self.headers_seen: set = set()

    def observe_client(self, tx: bytes) -> None:
        """Next to the generated operations the h2 library returns connection-level credit by
        itself for DATA that arrives on streams the client has reset: count the connection
        WINDOW_UPDATEs the client really sent and add whatever the operations did not."""
        if self.cpos == 0 and len(tx) >= 24:
            self.cpos = 24  # the connection preface
        while self.cpos + 9 <= len(tx):
            frame, length = Frame.parse_frame_header(memoryview(tx[self.cpos:self.cpos + 9]))
            if self.cpos + 9 + length > len(tx):
                break
            body = memoryview(tx[self.cpos + 9:self.cpos + 9 + length])
            self.cpos += 9 + length
            if isinstance(frame, WindowUpdateFrame) and frame.stream_id == 0:
                frame.parse_body(body)
                self.conn_wu_seen += frame.window_increment
        auto = self.conn_wu_seen - self.conn_wu_explicit
        if auto > 0:
            self.conn += auto
            self.conn_wu_explicit += auto

    def credit_conn(self, n: int) -> None:
        self.conn += n
        self.conn_wu_explicit += n

    def open_stream(self, sid: int) -> None:
        self.stream[sid] = max([self.acked_init] + self.pending)
        self.data[sid] = bytearray()
        self.ended[sid] = 0

    def settings_sent(self, w: int) -> None:
        # an increase may be used by the server as soon as it arrives
        top = max([self.acked_init] + self.pending)
        if w > top:
            for sid in self.stream:
                self.stream[sid] += w - top
        self.pending.append(w)

    def settings_acked(self) -> None:
        if not self.pending:
            return
        old_top = max([self.acked_init] + self.pending)
        self.acked_init = self.pending.pop(0)
        new_top = max([self.acked_init] + self.pending)
        if new_top < old_top:
            for sid in self.stream:
                self.stream[sid] -= old_top - new_top

    def consume(self, rx: bytes) -> None:
        tag = {"backend": self.be}
        while self.pos + 9 <= len(rx):
            frame, length = Frame.parse_frame_header(memoryview(rx[self.pos:self.pos + 9]))
            if self.pos + 9 + length > len(rx):
                break
            frame.parse_body(memoryview(rx[self.pos + 9:self.pos + 9 + length]))
            self.pos += 9 + length
            sid = frame.stream_id
            if isinstance(frame, SettingsFrame) and "ACK" in frame.flags:
                self.settings_acked()
            elif isinstance(frame, HeadersFrame):
                self.headers_seen.add(sid)
                if "END_STREAM" in frame.flags:
                    self.ended[sid] = self.ended.get(sid, 0) + 1
            elif isinstance(frame, RstStreamFrame):
                self.reset_by_server[sid] = frame.error_code
            elif isinstance(frame, DataFrame):
                n = frame.flow_controlled_length
                if sid not in self.stream:
                    raise Violation("data_on_unknown_stream", f"stream {sid}", **tag)
                if self.ended.get(sid):
                    raise Violation("data_after_end_stream", f"stream {sid}", **tag)
                if n > self.max_frame:
                    raise Violation("frame_too_large", f"DATA of {n} bytes on stream {sid}, max "
                                    f"frame size {self.max_frame}", **tag)
                if n > 0 and n > self.stream[sid]:  # (an empty DATA frame uses no credit)
                    raise Violation("stream_window_exceeded", f"DATA of {n} bytes on stream "
                                    f"{sid} whose window allows at most {self.stream[sid]}",
                                    **tag)
                if n > 0 and n > self.conn:
                    raise Violation("connection_window_exceeded", f"DATA of {n} bytes on stream "
                                    f"{sid}; connection window allows at most {self.conn}", **tag)
                self.stream[sid] -= n
                self.conn -= n
                if self.stream[sid] <= 0 or self.conn <= 0:
                    self.zero_seen = True
                self.data[sid] += frame.data
                if "END_STREAM" in frame.flags:
                    self.ended[sid] += 1


async def scenario(env: Any, case: Dict[str, Any]) -> Dict[str, Any]:
    be = env.backend
    conn = env.connect(alpn="h2", tls=True)
    settings: Dict[int, int] = {}
    init = DEFAULT_WINDOW if case["init_win"] is None else case["init_win"]
    if case["init_win"] is not None:
        settings[h2.settings.SettingCodes.INITIAL_WINDOW_SIZE] = case["init_win"]
    max_frame = case["max_frame"] or 16384
    if case["max_frame"]:
        settings[h2.settings.SettingCodes.MAX_FRAME_SIZE] = case["max_frame"]
    client = H2Client(conn, settings or None, ack_policy="manual")
    led = Ledger(init, max_frame, be)
    client.start()
    await env.settle0()
    specs = case["streams"]
    sids: List[int] = [1 + 2 * i for i in range(len(specs))]

    def prio_args(p: Dict[str, Any], own: int) -> Dict[str, Any]:
        dep = 0 if p["dep"] == 0 else sids[(p["dep"] - 1) % len(sids)]
        if dep == own:
            dep = 0
        return {"depends_on": dep, "weight": p["weight"], "exclusive": p["excl"]}

    for i, spec in enumerate(specs):
        p = spec["prio"]
        try:
            if p and p["before_headers"]:
                client.h2.prioritize(sids[i], **prio_args(p, sids[i]))
                client.flush()
                await env.settle0()
            kw: Dict[str, Any] = {}
            if p and not p["before_headers"]:
                a = prio_args(p, sids[i])
                kw = {"priority_depends_on": a["depends_on"], "priority_weight": a["weight"],
                      "priority_exclusive": a["exclusive"]}
            led.open_stream(sids[i])
            client.request([(b":method", b"GET"), (b":scheme", b"https"), (b":authority", b"x"),
                            (b":path", f"/s{i}".encode())], end_stream=True, sid=sids[i], **kw)
        except Exception as e:
            raise Violation("client_refused", f"h2 client refused to open stream {sids[i]}: "
                            f"{e!r}", backend=be)

    async def absorb() -> None:
        await env.settle0()
        client.pump()
        client.unacked = []
        client.flush()
        led.observe_client(bytes(getattr(client, "tx", b"")))
        led.consume(bytes(conn.rx))

    await absorb()
    for op in case["ops"]:
        kind = op["op"]
        try:
            if kind == "wu_stream":
                sid = sids[op["s"]]
                if sid in led.reset_by_client or led.ended.get(sid):
                    continue
                if led.stream[sid] + op["n"] > 2**31 - 1:
                    continue
                led.stream[sid] += op["n"]
                client.h2.increment_flow_control_window(op["n"], sid)
            elif kind == "wu_conn":
                if led.conn + op["n"] > 2**31 - 1:
                    continue
                led.credit_conn(op["n"])
                client.h2.increment_flow_control_window(op["n"])
            elif kind == "settings_win":
                if any(v + (op["w"] - max([led.acked_init] + led.pending)) > 2**31 - 1
                       for v in led.stream.values()):
                    continue
                led.settings_sent(op["w"])
                client.h2.update_settings({h2.settings.SettingCodes.INITIAL_WINDOW_SIZE: op["w"]})
            elif kind == "rst":
                sid = sids[op["s"]]
                if sid in led.reset_by_client or led.ended.get(sid):
                    continue
                led.reset_by_client.add(sid)
                client.h2.reset_stream(sid)
            elif kind == "prio":
                sid = sids[op["s"]]
                client.h2.prioritize(sid, **prio_args(op, sid))
            elif kind == "sleep":
                await env.sleep(op["dt"])
            else:
                await env.settle(30.0)
        except Violation:
            raise
        except Exception:
            continue  # the h2 client library refused the operation (stream already closed...)
        if op.get("join"):
            continue  # sent together with the next operation's frames
        client.flush()
        await absorb()
    # ---- quiescent point: nothing that could be sent is held back
    client.flush()  # (a last operation marked "join" has nothing to join)
    for _ in range(20):
        # absorbing what the server sent can itself make the client speak (the h2 library
        # returns connection credit for DATA of streams it has reset): quiescent only once the
        # client has nothing more to say
        sent_before = len(getattr(client, "tx", b""))
        await env.settle(60.0)
        await absorb()
        if len(getattr(client, "tx", b"")) == sent_before:
            break
    stuck = []
    if not led.pending:
        for i, sid in enumerate(sids):
            if sid in led.reset_by_client or sid in led.reset_by_server:
                continue
            want = body_of(specs[i], i)
            undelivered = len(want) - len(led.data[sid])
            unfinished = undelivered > 0 or not led.ended.get(sid)
            if undelivered > 0 and led.stream[sid] > 0 and led.conn > 0:
                stuck.append((sid, undelivered, led.stream[sid], led.conn))
            elif undelivered == 0 and not led.ended.get(sid) and sid in led.headers_seen:
                stuck.append((sid, "END_STREAM missing", led.stream[sid], led.conn))
    out = {"conn": conn, "client": client, "led": led, "sids": sids, "stuck": stuck}
    # ---- now give all the credit in the world: every live stream must complete
    for _ in range(400):
        done = all(led.ended.get(s) or s in led.reset_by_client or s in led.reset_by_server
                   for s in sids)
        if done:
            break
        try:
            if led.conn < 1 << 20:
                led.credit_conn(1 << 20)
                client.h2.increment_flow_control_window(1 << 20)
            for s in sids:
                if led.ended.get(s) or s in led.reset_by_client or s in led.reset_by_server:
                    continue
                if led.stream[s] < 1 << 20:
                    led.stream[s] += 1 << 20
                    client.h2.increment_flow_control_window(1 << 20, s)
        except Exception:
            pass
        client.flush()
        await env.settle(10.0)
        await absorb()
    await env.settle(30.0)
    await absorb()
    conn.eof()
    await env.settle(30.0)
    return out


def judge(case: Dict[str, Any], obs: Any) -> Dict[str, Any]:
    be = obs.backend
    tag = {"backend": be}
    if obs.spin:
        raise Violation("spin", obs.spin, **tag)
    val = obs.value
    conn, client, led = val["conn"], val["client"], val["led"]
    if conn.handler_exc is not None:
        import traceback

        text = "".join(traceback.format_exception(conn.handler_exc))
        if "_send_data" in text and "KeyError" in text:
            raise Violation("send_task_killed_by_stale_priority_entry",
                            repr(conn.handler_exc), **tag)
        raise Violation("handler_exception", repr(conn.handler_exc), **tag)
    if client.error:
        raise Violation("client_protocol_error", client.error, **tag)
    if client.goaway not in (None, 0):
        cyc = cycle_steps(case)
        if cyc and client.goaway == 2:
            raise Violation("priority_cycle_kills_connection", f"a dependency on the stream's "
                            f"own descendant ({cyc}) ended the whole connection with GOAWAY "
                            f"INTERNAL_ERROR", **tag)
        raise Violation("connection_error", f"GOAWAY {client.goaway}", **tag)
    if val["stuck"]:
        raise Violation("progress_stalled", f"at a quiescent point with no SETTINGS pending: "
                        f"(stream, undelivered, stream window, connection window) = "
                        f"{val['stuck']}", **tag)
    carried = 0
    for i, sid in enumerate(val["sids"]):
        want = body_of(case["streams"][i], i)
        got = bytes(led.data[sid])
        if not want.startswith(got):
            raise Violation("data_out_of_order", f"stream {sid}: delivered bytes are not a prefix "
                            f"of what the application wrote", **tag)
        if got:
            carried += 1
        if sid in led.reset_by_client:
            continue
        if sid in led.reset_by_server:
            raise Violation("stream_reset_by_server", f"stream {sid} code "
                            f"{led.reset_by_server[sid]}", **tag)
        if got != want or led.ended.get(sid) != 1:
            raise Violation("stream_incomplete", f"stream {sid}: {len(got)}/{len(want)} bytes, "
                            f"END_STREAM x{led.ended.get(sid)} although ample credit was given "
                            f"(windows: stream {led.stream[sid]}, connection {led.conn})", **tag)
    return {"zero": led.zero_seen, "carried": carried}


def run_case(case: Dict[str, Any]) -> CaseInfo:
    cfg = {"keep_alive_timeout": T_BIG}
    programs = {f"/s{i}": program(s, i) for i, s in enumerate(case["streams"])}
    info = {"zero": False, "carried": 0}

    async def sc(env: Any) -> Any:
        return await scenario(env, case)

    for be in BACKENDS:
        obs = run_sim(be, cfg, programs, sc, sched=case.get("sched", 0))
        info = judge(case, obs)
    classes = [f"streams={len(case['streams'])}", f"init_win={case['init_win']}"]
    for op in case["ops"]:
        classes.append("op=" + op["op"])
    if any(s["prio"] for s in case["streams"]):
        classes.append("priority")
    if info["zero"]:
        classes.append("window_hit_zero")
    if case.get("adjusted"):
        classes.append("adjusted:" + case["adjusted"])
    return CaseInfo(info["zero"] or info["carried"] >= 2, classes, evals=2)


def parts() -> List[Part]:
    return [Part("flow", run_case, strategy=case_strategy, quick=1500, thorough=80000,
                 rule="multiplexed responses under generated flow-control / priority / reset "
                      "operation sequences")]
