"""C13 - protocol selection and upgrades lose no bytes and ignore segmentation."""
from __future__ import annotations

import base64
from typing import Any, Dict, List, Optional, Tuple

import h2.config
import h2.connection
import h2.settings
from hypothesis import strategies as st

from gen.http import apply_segmentation, deliver, make_body, segmentation
from sim.run import BACKENDS, run_sim
from vlib.core import CaseInfo, Part, Violation
from wire.h1 import b2s, parse_responses, s2b
from wire.h2c import FrameAccounting
from wire.ws import (accept_token, assemble_messages, close_frame, handshake_request, make_key,
                     message_frames, parse_server_frames)

PROPERTY = "C13"
LEVEL = "exploration"
RULE = (
    "openings (ALPN h2 / http/1.1 / none) x first bytes (HTTP/2 preface, h2c upgrade with "
    "generated HTTP2-Settings payloads with/without a body, WebSocket upgrade, plain request) x "
    "further requests in the same or later reads x every two-way split of the opening bytes "
    "(enumerated) and random k-way splits, both workers; oracle = expected protocol per opening, "
    "every request served exactly once with its own body, and metamorphic equality of the "
    "normalised observation with the unsplit delivery; non-trivial = a split inside the "
    "opening with traffic after it"
)
ASSUMPTIONS = [
    "the client byte stream is fixed up front (it does not wait for server frames), so every "
    "split delivers exactly the same bytes",
    "ALPN is injected through the attribute the server reads; OpenSSL negotiation is trusted",
]
T_BIG = 100000.0


def h2_client_bytes(requests: List[Dict[str, Any]], scheme: str, upgrade: bool = False,
                    settings: Optional[Dict[int, int]] = None,
                    first_sid: int = 1) -> Tuple[bytes, bytes]:
    """(settings header payload, bytes) of an HTTP/2 client that sends without waiting."""
    conn = h2.connection.H2Connection(
        config=h2.config.H2Configuration(client_side=True, header_encoding=None))
    if settings:
        conn.local_settings = h2.settings.Settings(client=True, initial_values=settings)
    payload = b""
    if upgrade:
        payload = conn.initiate_upgrade_connection()
    else:
        conn.initiate_connection()
    for r in requests:
        sid = conn.get_next_available_stream_id()
        body = make_body(r["body_len"], r["seed"])
        hs = [(b":method", b"POST" if body else b"GET"), (b":scheme", scheme.encode()),
              (b":authority", b"example.com"), (b":path", r["path"].encode())]
        conn.send_headers(sid, hs, end_stream=not body)
        if body:
            conn.send_data(sid, body, end_stream=True)
    return payload, conn.data_to_send()


def h1_request_bytes(r: Dict[str, Any], extra: Optional[List[str]] = None,
                     close: bool = False) -> bytes:
    body = make_body(r["body_len"], r["seed"])
    lines = [f"{'POST' if body else 'GET'} {r['path']} HTTP/1.1", "Host: example.com"]
    lines += extra or []
    chunked = bool(body) and r.get("chunked")
    if chunked:
        lines.append("Transfer-Encoding: chunked")
    elif body:
        lines.append(f"Content-Length: {len(body)}")
    if close:
        lines.append("Connection: close")
    if chunked:
        k = max(1, len(body) // 2)
        wire = b"".join(b"%x\r\n" % len(c) + c + b"\r\n" for c in (body[:k], body[k:]) if c)
        body = wire + b"0\r\n\r\n"
    return ("\r\n".join(lines) + "\r\n\r\n").encode() + body


@st.composite
def req(draw: Any, i: int) -> Dict[str, Any]:
    return {"path": f"/r{i}", "body_len": draw(st.sampled_from([0, 0, 1, 17, 300, 2000])),
            "seed": draw(st.integers(0, 255))}


@st.composite
def case_strategy(draw: Any) -> Dict[str, Any]:
    kind = draw(st.sampled_from(["plain", "prior", "alpn_h2", "h2c", "h2c", "h2c_body", "ws",
                                 "alpn_h1_plain", "alpn_h1_prior"]))
    nfollow = draw(st.integers(0, 3))
    case = {
        "kind": kind, "sched": draw(st.integers(0, 999)),
        "first": draw(req(0)),
        "follow": [draw(req(i + 1)) for i in range(nfollow)],
        "follow_when": draw(st.sampled_from(["same", "same", "later"])),
        "seg": draw(segmentation()),
        "settings": draw(st.sampled_from(["default", "default", "empty", "absent", "window",
                                          "frame"])),
        "ws_msg": draw(st.text(alphabet="abc é€", max_size=8)),
        "ws_conn": draw(st.sampled_from(["Upgrade", "upgrade", "keep-alive, Upgrade",
                                         "keep-alive,\tUpgrade", "keep-alive , upgrade , x-foo",
                                         "Upgrade, keep-alive"])),
        "ws_upgrade": draw(st.sampled_from(["websocket", "WebSocket", "WEBSOCKET"])),
        # header names reach the protocol-selection code as the client spelt them
        "raw_headers": draw(st.booleans()),
        # ordinary keep-alive requests served on the connection before the opening: an upgrade
        # may come as the n-th request of a connection, not only as its first
        "prior": draw(st.sampled_from([0, 0, 0, 1, 2])) if kind in ("h2c", "h2c_body", "ws",
                                                                    "plain") else 0,
    }
    if kind == "h2c":
        case["first"]["body_len"] = 0
    if kind == "h2c_body" and case["first"]["body_len"] == 0:
        case["first"]["body_len"] = 5
    if kind == "h2c_body":
        # the body that makes the upgrade offer void may be framed either way
        case["first"]["chunked"] = draw(st.booleans())
    return case


def build(case: Dict[str, Any]) -> Dict[str, Any]:
    """-> {tls, alpn, opening bytes, rest bytes, expectation}"""
    kind = case["kind"]
    first, follow = case["first"], case["follow"]
    out: Dict[str, Any] = {"tls": False, "alpn": None}
    if kind in ("plain", "alpn_h1_plain"):
        reqs = [first] + follow
        parts = [h1_request_bytes(r) for r in reqs]
        out.update({"opening": parts[0], "rest": b"".join(parts[1:]), "proto": "h1",
                    "requests": reqs})
        if kind == "alpn_h1_plain":
            out.update({"tls": True, "alpn": "http/1.1"})
    elif kind in ("prior", "alpn_h2", "alpn_h1_prior"):
        tls = kind != "prior"
        _, data = h2_client_bytes([first] + follow, "https" if tls else "http")
        preface_end = 24
        out.update({"opening": data[:preface_end + 9], "rest": data[preface_end + 9:],
                    "proto": "h2", "requests": [first] + follow, "tls": tls,
                    "alpn": "h2" if kind == "alpn_h2" else ("http/1.1" if tls else None)})
    elif kind in ("h2c", "h2c_body"):
        settings = {"default": None, "empty": None, "absent": None,
                    "window": {h2.settings.SettingCodes.INITIAL_WINDOW_SIZE: 100000},
                    "frame": {h2.settings.SettingCodes.MAX_FRAME_SIZE: 32768}}[case["settings"]]
        payload, data = h2_client_bytes(follow, "http", upgrade=True, settings=settings)
        extra = ["Connection: Upgrade, HTTP2-Settings", "Upgrade: h2c"]
        if case["settings"] == "empty":
            extra.append("HTTP2-Settings: ")
        elif case["settings"] != "absent":
            extra.append("HTTP2-Settings: " + payload.decode())
        opening = h1_request_bytes(first, extra)
        if kind == "h2c_body":
            # the upgrade is ignored: everything that follows is HTTP/1.1
            rest = b"".join(h1_request_bytes(r) for r in follow)
            out.update({"opening": opening, "rest": rest, "proto": "h1",
                        "requests": [first] + follow})
        else:
            out.update({"opening": opening, "rest": data, "proto": "h2c",
                        "requests": [first] + follow})
    elif kind == "ws":
        opening = handshake_request(path=first["path"], key=make_key(3),
                                    connection=case.get("ws_conn", "Upgrade"),
                                    upgrade=case.get("ws_upgrade", "websocket"))
        rest = b"".join(message_frames("text", case["ws_msg"].encode("utf-8"), []))
        out.update({"opening": opening, "rest": rest, "proto": "ws", "requests": [first]})
    if "negotiated" in case and out["tls"]:
        out["alpn"] = case["negotiated"]  # what a real TLS handshake agreed on (tls_alpn part)
    pr = [{"path": f"/p{j}", "body_len": [0, 9][j % 2], "seed": 40 + j}
          for j in range(case.get("prior", 0))]
    out["prior_requests"] = pr
    out["opening"] = b"".join(h1_request_bytes(r) for r in pr) + out["opening"]
    return out


async def scenario(env: Any, case: Dict[str, Any], seg: Dict[str, Any]) -> Any:
    b = build(case)
    conn = env.connect(alpn=b["alpn"], tls=b["tls"])
    await env.settle0()
    if case["follow_when"] == "same" and b["proto"] != "ws":
        # (a WebSocket client must wait for the handshake response before sending frames)
        await deliver(env, conn, b["opening"] + b["rest"], seg)
    else:
        await deliver(env, conn, b["opening"], seg)
        await env.settle(5.0)
        if b["rest"]:
            conn.send(b["rest"])
    await env.settle(60.0)
    if b["proto"] == "ws":
        conn.send(close_frame(1000))
        await env.settle(60.0)
    conn.eof()
    await env.settle(60.0)
    return conn


def observe(case: Dict[str, Any], obs: Any) -> Dict[str, Any]:
    """Normalised observation + direct checks against the expectation."""
    be = obs.backend
    conn = obs.value
    if obs.spin:
        raise Violation("spin", obs.spin, backend=be)
    if conn.handler_exc is not None:
        raise Violation("handler_exception", repr(conn.handler_exc), backend=be)
    b = build(case)
    proto = b["proto"]
    reqs = b["requests"]
    insts = [{"type": i.scope.get("type"), "http_version": i.scope.get("http_version"),
              "path": i.scope.get("path"), "body": i.body()} for i in obs.instances]
    data = conn.received_before_eof()
    # ---- the ordinary requests served before the opening (HTTP/1.1, in order, answered)
    pr = b.get("prior_requests", [])
    if pr:
        resps0, _, err0 = parse_responses(data, ["GET"] * len(pr), conn.server_gone)
        got = [(i["type"], i["http_version"], i["path"], i["body"]) for i in insts[:len(pr)]]
        want0 = [("http", "1.1", r["path"], make_body(r["body_len"], r["seed"])) for r in pr]
        if got != want0:
            raise Violation("prior_request_not_served", f"{_short(got)}", backend=be)
        for r, resp in zip(pr, resps0[:len(pr)]):
            wb = r["path"].encode() + b"|" + make_body(r["body_len"], r["seed"])
            if err0 or resp.status != 200 or resp.body != wb or not resp.complete:
                raise Violation("prior_response_wrong", f"{r['path']}: {resp.to_json()} {err0}",
                                backend=be)
        if len(resps0) < len(pr):
            raise Violation("prior_response_wrong", f"{len(resps0)} of {len(pr)}", backend=be)
        insts = insts[len(pr):]
        data = data[resps0[len(pr) - 1].end:]
    responses: Dict[str, Any] = {}
    want_version = {"h1": "1.1", "h2": "2", "h2c": "2", "ws": "1.1"}[proto]
    if proto == "h1":
        resps, leftover, err = parse_responses(data, ["GET"] * len(reqs), conn.server_gone)
        if err or leftover:
            raise Violation("malformed_response", f"{err} leftover={len(leftover)}", backend=be)
        for i, r in enumerate(resps):
            responses[f"/r{i}"] = (r.status, r.body, r.complete)
    elif proto == "ws":
        resps, leftover, err = parse_responses(data, ["GET"], conn.server_gone)
        if err or not resps or resps[0].status != 101:
            raise Violation("websocket_not_started", f"{[r.status for r in resps]} {err}",
                            backend=be)
        if resps[0].header(b"sec-websocket-accept") != [accept_token(make_key(3))]:
            raise Violation("accept_token", f"{resps[0].headers}", backend=be)
        frames, _, ferr = parse_server_frames(leftover)
        events, aerr = assemble_messages(frames) if not ferr else ([], ferr)
        if ferr or aerr:
            raise Violation("malformed_frames", f"{ferr or aerr}", backend=be)
        responses["ws"] = [(e["kind"], e.get("data"), e.get("code")) for e in events]
    else:
        h2data = data
        if proto == "h2c":
            end = data.find(b"\r\n\r\n")
            if not data.startswith(b"HTTP/1.1 101") or end < 0:
                raise Violation("h2c_no_101", f"{data[:80]!r}", backend=be)
            h2data = data[end + 4:]
        acct = FrameAccounting().decode(h2data, max_frame=32768)
        if acct.error or acct.leftover:
            raise Violation("malformed_frames", f"{acct.error} leftover={acct.leftover}",
                            backend=be)
        if acct.goaway is not None and acct.goaway[1] != 0:
            raise Violation("goaway_error", f"{acct.goaway}", backend=be)
        for i, r in enumerate(reqs):
            sid = 1 + 2 * i
            s = acct.streams.get(sid)
            if s is None or not s.header_blocks:
                responses[r["path"]] = None
                continue
            status = int(dict(s.header_blocks[0]).get(b":status", b"0"))
            responses[r["path"]] = (status, bytes(s.data), s.end_stream == 1)
    # ---- expectation: protocol, every request exactly once with its own body
    if proto == "ws":
        if len(insts) != 1 or insts[0]["type"] != "websocket":
            raise Violation("wrong_protocol", f"{insts}", backend=be)
        want = [("text", case["ws_msg"], None), ("close", None, 1000)]
        if responses["ws"] != want:
            raise Violation("ws_bytes_lost", f"{responses['ws']} != {want}", backend=be)
    else:
        if len(insts) != len(reqs):
            raise Violation("request_count", f"{len(insts)} instances for {len(reqs)} requests "
                            f"({[i['path'] for i in insts]})", backend=be)
        by_path = {i["path"]: i for i in insts}
        if len(by_path) != len(insts):
            raise Violation("request_duplicated", f"{[i['path'] for i in insts]}", backend=be)
        for r in reqs:
            i = by_path.get(r["path"])
            body = make_body(r["body_len"], r["seed"])
            if i is None:
                raise Violation("request_lost", f"{r['path']} never reached the application",
                                backend=be)
            if i["type"] != "http" or i["http_version"] != want_version:
                raise Violation("wrong_protocol", f"{r['path']}: {i['type']} HTTP/"
                                f"{i['http_version']}, expected HTTP/{want_version}", backend=be)
            if i["body"] != body:
                raise Violation("body_bytes_lost_or_duplicated", f"{r['path']}: application got "
                                f"{len(i['body'])} bytes, client sent {len(body)}", backend=be)
            resp = responses.get(r["path"])
            want_body = r["path"].encode() + b"|" + body
            if resp is None or resp[0] != 200 or resp[1] != want_body or not resp[2]:
                raise Violation("response_wrong", f"{r['path']}: {resp and (resp[0], len(resp[1]), resp[2])}",
                                backend=be)
    insts_n = sorted((i["type"], i["http_version"], i["path"], i["body"]) for i in insts)
    return {"instances": insts_n, "responses": responses}


def run_case(case: Dict[str, Any]) -> CaseInfo:
    cfg = {"keep_alive_timeout": T_BIG, "h11_pass_raw_headers": bool(case.get("raw_headers"))}
    programs = {"*": [["echo"]]}
    if case["kind"] == "ws":
        programs = {"*": [["recv"], ["send", {"type": "websocket.accept"}],
                          ["ws_loop", {"echo": True}]],
                    "/p0": [["echo"]], "/p1": [["echo"]]}
    unsplit = {"mode": "one", "between": "settle"}
    for be in BACKENDS:
        ref = None
        for seg in (unsplit, case["seg"]):
            async def sc(env: Any, seg: Dict[str, Any] = seg) -> Any:
                return await scenario(env, case, seg)

            obs = run_sim(be, cfg, programs, sc, sched=case.get("sched", 0))
            o = observe(case, obs)
            if ref is None:
                ref = o
            elif o != ref:
                raise Violation("split_changes_outcome", f"segmentation {case['seg']} gives "
                                f"{_short(o)}; unsplit gives {_short(ref)}", backend=be)
    b = build(case)
    classes = ["kind=" + case["kind"], "follow=" + case["follow_when"],
               f"nfollow={len(case['follow'])}", "seg=" + case["seg"]["mode"]]
    if case["kind"].startswith("h2c"):
        classes.append("settings=" + case["settings"])
    split_inside = case["seg"]["mode"] != "one"
    return CaseInfo(split_inside and bool(b["rest"]), classes, evals=4)


def _short(x: Any) -> str:
    s = repr(x)
    return s if len(s) < 400 else s[:400] + "..."


FIXED_FOLLOW = [{"path": "/r1", "body_len": 17, "seed": 5}, {"path": "/r2", "body_len": 0, "seed": 0}]


def enumerate_splits(tier: str) -> Any:
    kinds = ["plain", "prior", "alpn_h2", "h2c", "h2c_body", "ws", "alpn_h1_prior"]
    for kind in kinds:
        variants = ["default", "empty", "absent"] if kind == "h2c" else ["default"]
        if kind == "h2c_body":
            variants = ["default", "chunked"]  # (framing of the body, not a settings payload)
        for settings in variants:
            for when in ("same", "later"):
                case = {"kind": kind, "sched": 0, "ws_conn": "keep-alive, Upgrade",
                        "ws_upgrade": "WebSocket",
                        "first": {"path": "/r0", "body_len": 5 if kind == "h2c_body" else 0,
                                  "seed": 1, "chunked": settings == "chunked"},
                        "follow": list(FIXED_FOLLOW), "follow_when": when,
                        "settings": "default" if settings == "chunked" else settings,
                        "ws_msg": "hé", "seg": None}
                b = build(case)
                total = len(b["opening"]) + (len(b["rest"]) if when == "same" else 0)
                step = 1 if tier == "thorough" else 3
                for cut in range(1, min(total, len(b["opening"]) + 40), step):
                    c = dict(case)
                    c["seg"] = {"mode": "cuts", "cuts": [cut], "between": "settle", "dt": 0.5}
                    yield c


# --------------------------------------------------------------------------- real TLS for ALPN
ALPN_NAMES = ["h2", "http/1.1", "spdy/3", "acme-tls/1"]


@st.composite
def tls_alpn_case(draw: Any) -> Dict[str, Any]:
    base = draw(case_strategy())
    base["prior"] = 0
    return {
        # Config.alpn_protocols (default: h2 first) and what the client offers, in its order
        "server_protocols": draw(st.sampled_from([["h2", "http/1.1"], ["h2", "http/1.1"],
                                                  ["http/1.1", "h2"], ["http/1.1"], ["h2"]])),
        "offer": draw(st.one_of(st.none(), st.lists(st.sampled_from(ALPN_NAMES), min_size=1,
                                                     max_size=4, unique=True))),
        "base": base, "sched": base["sched"],
    }


def negotiate_alpn(server_protocols: List[str], offer: Optional[List[str]]) -> Optional[str]:
    """A TLS handshake in memory between hypercorn's own SSLContext (Config.create_ssl_context
    with the repository's test certificate) and a client offering `offer`."""
    import os
    import ssl

    from hypercorn.config import Config

    import hypercorn
    root = os.path.dirname(os.path.dirname(os.path.dirname(os.path.abspath(hypercorn.__file__))))
    config = Config()
    config.certfile = os.path.join(root, "tests", "assets", "cert.pem")
    config.keyfile = os.path.join(root, "tests", "assets", "key.pem")
    config.alpn_protocols = list(server_protocols)
    sctx = config.create_ssl_context()
    if sctx is None:
        raise Violation("no_ssl_context", "certfile and keyfile set, create_ssl_context() is None")
    cctx = ssl.create_default_context()
    cctx.check_hostname = False
    cctx.verify_mode = ssl.CERT_NONE
    if offer is not None:
        cctx.set_alpn_protocols(list(offer))
    s_in, s_out, c_in, c_out = (ssl.MemoryBIO() for _ in range(4))
    server = sctx.wrap_bio(s_in, s_out, server_side=True)
    client = cctx.wrap_bio(c_in, c_out, server_side=False)
    done = {"c": False, "s": False}
    for _ in range(30):
        for who, obj in (("c", client), ("s", server)):
            if not done[who]:
                try:
                    obj.do_handshake()
                    done[who] = True
                except (ssl.SSLWantReadError, ssl.SSLWantWriteError):
                    pass
                except ssl.SSLError as e:
                    raise Violation("tls_handshake_failed", f"{e!r} (server protocols "
                                    f"{server_protocols}, client offers {offer})")
            data = c_out.read()
            if data:
                s_in.write(data)
            data = s_out.read()
            if data:
                c_in.write(data)
        if all(done.values()):
            break
    else:
        raise Violation("tls_handshake_failed", "no agreement after 30 rounds")
    if server.version() not in ("TLSv1.2", "TLSv1.3"):
        raise Violation("tls_version", f"{server.version()} (RFC 7540 9.2 wants >= 1.2)")
    if server.selected_alpn_protocol() != client.selected_alpn_protocol():
        raise Violation("alpn_sides_disagree", f"server {server.selected_alpn_protocol()!r}, "
                        f"client {client.selected_alpn_protocol()!r}")
    return server.selected_alpn_protocol()


def run_tls_alpn(case: Dict[str, Any]) -> CaseInfo:
    got = negotiate_alpn(case["server_protocols"], case["offer"])
    offer = case["offer"] or []
    want = next((p_ for p_ in case["server_protocols"] if p_ in offer), None)
    if got != want:
        raise Violation("alpn_selection", f"server protocols {case['server_protocols']}, client "
                        f"offers {case['offer']}: agreed on {got!r}, expected {want!r}")
    # the connection is then spoken the way the agreement says, over the simulated transport
    inner = dict(case["base"])
    inner["kind"] = "alpn_h2" if got == "h2" else "alpn_h1_plain"
    inner["negotiated"] = got
    if inner["kind"] == "alpn_h2":
        inner["first"] = dict(inner["first"])
    run_case(inner)
    return CaseInfo(True, [f"agreed={got}", f"server_first={case['server_protocols'][0]}",
                           "offer=" + ("none" if case["offer"] is None else str(len(offer)))],
                    evals=5)


def parts() -> List[Part]:
    return [
        Part("splits", run_case, enumerate=enumerate_splits,
             rule="every (quick: every third) two-way split point of 18 opening x follow-up "
                  "combinations, through 40 bytes past the opening"),
        Part("random", run_case, strategy=case_strategy, quick=600, thorough=30000,
             rule="random openings, follow-up requests with bodies, k-way splits and delays"),
        Part("tls_alpn", run_tls_alpn, strategy=tls_alpn_case, quick=200, thorough=6000,
             rule="a real TLS handshake (memory BIOs) between Config.create_ssl_context() and a "
                  "client offering generated ALPN lists; the agreed protocol is then spoken "
                  "over the simulated transport"),
    ]
