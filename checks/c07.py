"""C07 - idle connections time out, busy ones do not, dead ones are released."""
from __future__ import annotations

from typing import Any, Dict, List, Optional

from hypothesis import strategies as st

from gen.wsdrive import WSSession
from sim.apps import find_queue_deadlock
from sim.run import BACKENDS, run_sim
from vlib.core import CaseInfo, Part, Violation
from wire.h1 import parse_responses
from wire.h2c import H2Client
from wire.ws import close_frame, message_frames

PROPERTY = "C07"
LEVEL = "fault_enumeration"
RULE = (
    "session histories (complete requests with application delays from 0 to 1000 T, partial "
    "heads, pauses of 0 / T-e / T / T+e / 2T / 1000T / arbitrary virtual duration at every "
    "position, HTTP/2 stream opens, WebSocket sessions, provoked server-generated error "
    "responses, shutdown flag, peer loss by EOF / reset / write failure at every position) x "
    "keep_alive_timeout T from 0.01 to 10^4 on both workers; oracle = reference timer model "
    "evaluated live: the server must close at EXACTLY idle-start + T (virtual time), at once "
    "when shutdown has begun, never while a request or WebSocket is in progress, and after "
    "peer loss the handler must finish when the last application returns; non-trivial = a "
    "pause >= T after at least one request or inside a busy period, or peer loss with a live "
    "application"
)
ASSUMPTIONS = [
    "virtual clocks: SelectorEventLoop with a counter clock / trio MockClock(autojump)",
    "after a server-generated error response only 'closed no later than T' is asserted",
]


@st.composite
def timeout_value(draw: Any) -> float:
    return draw(st.sampled_from([0.01, 0.5, 1, 2.5, 5, 5.0, 60, 10000]))


def pause_values(T: float) -> List[float]:
    eps = T / 8
    return [0.0, T - eps, T, T + eps, 2 * T, 1000 * T, T / 3, T * 0.77]


@st.composite
def h1_history(draw: Any) -> Dict[str, Any]:
    T = draw(timeout_value())
    steps = []
    for _ in range(draw(st.integers(1, 6))):
        kind = draw(st.sampled_from(["request", "request", "request", "pause", "pause",
                                     "partial_head", "slow_request", "terminated", "error",
                                     "peer_loss", "pipelined_pair", "pipelined_pair"]))
        if kind == "pipelined_pair":
            steps.append({"op": "pipelined_pair",
                          "d1": draw(st.sampled_from([0.0, T / 4, T / 2])),
                          "d2": draw(st.sampled_from([0.0, T / 2, 2 * T + 0.5, 5 * T])),
                          "close_first": draw(st.sampled_from([False, False, True]))})
            continue
        if kind in ("request", "slow_request"):
            d = draw(st.sampled_from([0.0, T / 4, T / 2])) if kind == "request" else \
                draw(st.sampled_from([T, 2 * T + 0.5, 1000 * T]))
            steps.append({"op": "request", "delay": d,
                          "linger": draw(st.sampled_from([0.0, 0.0, T / 5, 3 * T])),
                          "pause_inside": draw(st.sampled_from([None, None, 0.5, 0.99])),
                          # the first bytes of a next request head arrive with this request and
                          # the rest never does: idle again once the response has ended
                          "tail_partial": draw(st.sampled_from([0, 0, 0, 1, 5, 25])),
                          "terminate_inside": draw(st.sampled_from([False, False, False, True]))})
        elif kind == "pause":
            steps.append({"op": "pause", "dur": draw(st.sampled_from(pause_values(T)))})
        elif kind == "partial_head":
            steps.append({"op": "partial_head", "n": draw(st.integers(1, 30))})
        elif kind == "terminated":
            steps.append({"op": "terminated"})
        elif kind == "error":
            steps.append({"op": "error", "what": draw(st.sampled_from(
                ["malformed", "server_name", "ws_invalid", "app_crash", "ws_early_data",
                 "ws_server_name"]))})
        else:
            steps.append({"op": "peer_loss", "how": draw(st.sampled_from(
                ["eof", "reset", "write_fail"])),
                "during": draw(st.sampled_from(["idle", "busy", "busy_linger", "busy_pipelined"]))})
            if steps[-1]["during"] == "busy_pipelined":
                # a second request waits behind the one whose response cannot be written
                steps[-1]["how"] = "write_fail"
            break
    return {"proto": "h1", "T": T, "steps": steps, "sched": draw(st.integers(0, 999)),
            "reset_how": draw(st.sampled_from(["reset", "reset", "unreach", "netdown", "timedout", "aborted"]))}


@st.composite
def h2_history(draw: Any) -> Dict[str, Any]:
    T = draw(timeout_value())
    steps = []
    for _ in range(draw(st.integers(1, 5))):
        kind = draw(st.sampled_from(["stream", "stream", "pause", "pause", "two_streams",
                                     "terminated", "peer_loss", "rejected", "reset_stream",
                                     "ws_lingering"]))
        if kind == "ws_lingering":
            # a WebSocket stream the application has closed while its coroutine lives on stays
            # among the connection's streams; a request next to it is in progress all the same
            steps.append({"op": "ws_lingering", "delay": draw(st.sampled_from([3 * T, 10 * T]))})
            continue
        if kind == "reset_stream":
            # the client gives up on its only open stream: no request in progress any more
            steps.append({"op": "reset_stream", "after": draw(st.sampled_from([0.0, T / 4, T]))})
            continue
        if kind == "rejected":
            # a request the server answers itself (no application): idle again from then on
            steps.append({"op": "rejected",
                          "what": draw(st.sampled_from(["server_name", "ws_no_version",
                                                        "ws_early_data"]))})
            continue
        if kind == "stream":
            steps.append({"op": "stream", "delay": draw(st.sampled_from([0.0, T / 2, 3 * T,
                                                                          1000 * T])),
                          # shutdown begins while the stream is open: it is not cut short, and
                          # the connection goes as soon as the stream has ended
                          "terminate_inside": draw(st.sampled_from([False, False, True]))})
        elif kind == "two_streams":
            steps.append({"op": "two_streams", "d1": draw(st.sampled_from([0.0, T / 2])),
                          "d2": draw(st.sampled_from([T, 2.5 * T])),
                          "terminate_inside": draw(st.sampled_from([False, False, True]))})
        elif kind == "pause":
            steps.append({"op": "pause", "dur": draw(st.sampled_from(pause_values(T)))})
        elif kind == "terminated":
            steps.append({"op": "terminated"})
        else:
            steps.append({"op": "peer_loss", "how": draw(st.sampled_from(["eof", "reset"])),
                          "during": draw(st.sampled_from(["idle", "busy"]))})
            break
    return {"proto": "h2", "T": T, "steps": steps, "sched": draw(st.integers(0, 999)),
            # how the connection became HTTP/2: TLS + ALPN, cleartext prior knowledge (the
            # preface arrives on what starts as an HTTP/1 connection) or the h2c upgrade
            "opening": draw(st.sampled_from(["alpn", "alpn", "alpn", "prior", "prior", "h2c", "h2c",
                                             "h2c_unknown_host", "h2c_unknown_host",
                                             "h2c_bad_settings"])),
            "bad_settings": draw(st.sampled_from(["!!!", "AAMAAABk", "AAMAAABkAA", "AAQ"])),
            "reset_how": draw(st.sampled_from(["reset", "reset", "unreach", "netdown", "timedout", "aborted"]))}


@st.composite
def ws_history(draw: Any) -> Dict[str, Any]:
    T = draw(timeout_value())
    return {"proto": draw(st.sampled_from(["ws1", "ws2"])), "T": T,
            "sched": draw(st.integers(0, 999)),
            "pause_before": draw(st.sampled_from([0.0, T / 2])),
            "pause_open": draw(st.sampled_from([T, 2 * T, 1000 * T])),
            "end": draw(st.sampled_from(["client_close", "eof", "reset", "server_close"])),
            # websocket_ping_interval: the server's own pings are one more task per session
            # (as a multiple of T, so that the longest pause sees a few thousand of them)
            "ping_factor": draw(st.sampled_from([None, None, 0.3, 3.0])),
            # known finding C07-3: the ping task sleeps on after the session is over and the
            # handler waits for it; generated cases allow for that one interval and count it
            "ping_sleep_allowed": True}


EPS = 1e-6


class Timer:
    """Reference model of the keep-alive timer, evaluated while the history runs."""

    def __init__(self, env: Any, conn: Any, T: float, be: str) -> None:
        self.env, self.conn, self.T, self.be = env, conn, T, be
        self.idle_since: Optional[float] = env.now()
        self.terminated_at: Optional[float] = None
        self.error_deadline: Optional[float] = None
        self.notes: List[str] = []
        self.checked_close = False
        self.must_close_at: Optional[float] = None

    def expected_close(self) -> Optional[float]:
        if self.idle_since is None:
            return None
        t = self.idle_since + self.T
        if self.terminated_at is not None:
            t = min(t, max(self.terminated_at, self.idle_since))
        return t

    def busy(self) -> None:
        self.idle_since = None

    def idle(self, since: float) -> None:
        self.idle_since = since

    def check(self, where: str) -> bool:
        """Verify the server's closing behaviour up to now; True if it has closed."""
        now = self.env.now()
        conn = self.conn
        tag = {"backend": self.be}
        if self.error_deadline is not None:
            if conn.server_gone:
                return True
            if now >= self.error_deadline + EPS:
                raise Violation("not_closed_after_error_response", f"{where}: error response at "
                                f"t={self.error_deadline - self.T}, still open at t={now} "
                                f"(T={self.T})", **tag)
            return False
        if self.must_close_at is not None:
            if conn.server_gone:
                if abs(conn.server_eof_at - self.must_close_at) > EPS:
                    raise Violation("close_time_wrong", f"{where}: closed at "
                                    f"{conn.server_eof_at}, the closing response ended at "
                                    f"{self.must_close_at}", **tag)
                return True
            if now >= self.must_close_at + EPS:
                raise Violation("not_closed_after_closing_response", f"{where}: response with "
                                f"connection: close ended at {self.must_close_at}, still open "
                                f"at {now}", **tag)
            return False
        exp = self.expected_close()
        if conn.server_gone:
            at = conn.server_eof_at
            if exp is None:
                raise Violation("closed_while_busy", f"{where}: server closed at t={at} during a "
                                f"request / open WebSocket (T={self.T}) notes={self.notes}",
                                **tag)
            if abs(at - exp) > EPS:  # (sums of float delays: 0.25 + 0.5 may read 0.7499999999999999)
                kind = "closed_early" if at < exp else "closed_late"
                raise Violation(kind, f"{where}: server closed at t={at}, idle since "
                                f"{self.idle_since}, T={self.T}, terminated at "
                                f"{self.terminated_at}: expected exactly {exp}", **tag)
            self.checked_close = True
            return True
        if exp is not None and now > exp + EPS:
            raise Violation("idle_not_closed", f"{where}: idle since {self.idle_since}, T="
                            f"{self.T}, terminated at {self.terminated_at}; still open at "
                            f"t={now} (expected close at {exp})", **tag)
        return False


def request_bytes(path: str, host: str = "example.com") -> bytes:
    return f"GET {path} HTTP/1.1\r\nHost: {host}\r\n\r\n".encode()


async def run_h1(env: Any, case: Dict[str, Any], app: Any) -> Dict[str, Any]:
    T = case["T"]
    conn = env.connect()
    await env.settle0()
    tm = Timer(env, conn, T, env.backend)
    nreq = 0
    lost_at = None
    nontrivial = False
    for i, step in enumerate(case["steps"]):
        where = f"step {i} {step['op']}"
        if tm.check(where + " (before)"):
            break
        op = step["op"]
        if op == "pause":
            if nreq and step["dur"] >= T:
                nontrivial = True
            await env.sleep(step["dur"])
        elif op == "partial_head":
            conn.send(request_bytes("/partial")[:step["n"]])
            await env.settle0()
            # the rest never arrives: this connection can no longer carry a valid request
            case["_poisoned"] = True
        elif op == "terminated":
            await env.set_terminated()
            tm.terminated_at = env.now()
            await env.settle0()
        elif op == "request":
            if case.get("_poisoned"):
                continue
            t0 = env.now()
            path = f"/d{nreq}"
            app.programs[path] = [["recv_all"], ["sleep", step["delay"]],
                                  ["respond", 200, [["content-length", "2"]], ["ok"]],
                                  ["recv_disc"], ["sleep", step["linger"]]]
            conn.send(request_bytes(path) + request_bytes("/partial")[:step.get("tail_partial", 0)])
            if step.get("tail_partial"):
                case["_poisoned"] = True
                nontrivial = True
            nreq += 1
            tm.busy()
            tm.notes.append(f"request at {t0} delay {step['delay']}")
            await env.settle0()
            if step.get("terminate_inside") and step["delay"] > 0 and tm.terminated_at is None:
                nontrivial = True
                await env.sleep(step["delay"] / 4)
                await env.set_terminated()
                tm.terminated_at = env.now()
                tm.notes.append(f"terminated at {tm.terminated_at} inside a request")
                await env.settle0()
                if tm.check(where + " (shutdown began inside the busy period)"):
                    break
            if step["pause_inside"] is not None and step["delay"] > 0:
                await env.sleep(max(0.0, t0 + step["delay"] * step["pause_inside"] - env.now()))
                if step["delay"] * step["pause_inside"] >= T:
                    nontrivial = True
                if tm.check(where + " (inside the busy period)"):
                    break
            await env.sleep(max(0.0, t0 + step["delay"] - env.now()))
            tm.idle(t0 + step["delay"])
            got = conn.received().count(b"HTTP/1.1 200")
            if got != nreq and not conn.server_gone:
                raise Violation("response_missing", f"{where}: {got} responses for {nreq} "
                                f"requests at t={env.now()}", backend=env.backend)
        elif op == "pipelined_pair":
            if case.get("_poisoned") or tm.terminated_at is not None:
                continue
            t0 = env.now()
            p1, p2 = f"/d{nreq}", f"/d{nreq + 1}"
            hdrs = [["content-length", "2"]] + ([["connection", "close"]]
                                                 if step["close_first"] else [])
            app.programs[p1] = [["recv_all"], ["sleep", step["d1"]], ["respond", 200, hdrs, ["ok"]]]
            app.programs[p2] = [["recv_all"], ["sleep", step["d2"]],
                                ["respond", 200, [["content-length", "2"]], ["ok"]]]
            conn.send(request_bytes(p1) + request_bytes(p2))
            tm.busy()
            tm.notes.append(f"pipelined pair at {t0}: {step}")
            nontrivial = True
            await env.settle0()
            await env.sleep(step["d1"])
            await env.settle0()
            if step["close_first"]:
                nreq += 1
                tm.must_close_at = t0 + step["d1"]
                await env.sleep(4 * EPS)  # (just past the instant: at it, nothing is late yet)
                await env.settle0()
                tm.check(where + " (after the closing response)")
                break
            nreq += 2
            if step["d2"] >= T:
                await env.sleep(step["d2"] / 2)
                if tm.check(where + " (inside the second busy period)"):
                    break
            await env.sleep(max(0.0, t0 + step["d1"] + step["d2"] - env.now()))
            await env.settle0()
            tm.idle(t0 + step["d1"] + step["d2"])
            got = conn.received().count(b"HTTP/1.1 200")
            if got != nreq and not conn.server_gone:
                raise Violation("response_missing", f"{where}: {got} responses for {nreq} "
                                f"requests at t={env.now()}", backend=env.backend)
        elif op == "error":
            if case.get("_poisoned"):
                continue
            what = step["what"]
            t0 = env.now()
            if what == "malformed":
                conn.send(b"GET / HTTP/9.9\r\nHost: x\r\n\r\n")
            elif what == "server_name":
                conn.send(request_bytes("/x", host="unknown.invalid"))
            elif what == "ws_server_name":
                # a well-formed WebSocket handshake for a name this server does not serve: 404
                conn.send(b"GET /ws HTTP/1.1\r\nHost: unknown.invalid\r\nUpgrade: websocket\r\n"
                          b"Connection: Upgrade\r\nSec-WebSocket-Version: 13\r\n"
                          b"Sec-WebSocket-Key: dGhlIHNhbXBsZSBub25jZQ==\r\n\r\n")
            elif what == "ws_invalid":
                conn.send(b"GET /ws HTTP/1.1\r\nHost: example.com\r\nUpgrade: websocket\r\n"
                          b"Connection: Upgrade\r\nSec-WebSocket-Version: 12\r\n\r\n")
            elif what == "ws_early_data":
                app.programs["/wsearly"] = [["recv"], ["sleep", 1000 * T], ["return"]]
                conn.send(b"GET /wsearly HTTP/1.1\r\nHost: example.com\r\nUpgrade: websocket\r\n"
                          b"Connection: Upgrade\r\nSec-WebSocket-Version: 13\r\n"
                          b"Sec-WebSocket-Key: dGhlIHNhbXBsZSBub25jZQ==\r\n\r\n")
                await env.settle0()
                conn.send(b"\x88\x80\x00\x00\x00\x00")
            else:
                app.programs["/crash"] = [["raise", "ValueError"]]
                conn.send(request_bytes("/crash"))
            await env.settle0()
            tm.error_deadline = t0 + T
            tm.notes.append(f"error {what} at {t0}")
            await env.sleep(T + 4 * EPS)  # (just past the deadline: at it, nothing is late yet)
            await env.settle0()
            tm.check(where + " (T after the error response)")
            break
        elif op == "peer_loss":
            during = step["during"]
            if during != "idle" and not case.get("_poisoned"):
                path = f"/d{nreq}"
                linger = 2 * T if during == "busy_linger" else 0.0
                app.programs[path] = [["recv_all"], ["sleep", 3 * T],
                                      ["respond", 200, [["content-length", "2"]], ["ok"]],
                                      ["recv_disc"], ["sleep", linger]]
                behind = b""
                if during == "busy_pipelined":
                    app.programs["/behind"] = [["recv_all"], ["respond", 200,
                                                               [["content-length", "2"]], ["ok"]]]
                    behind = request_bytes("/behind")
                conn.send(request_bytes(path) + behind)
                nreq += 1
                tm.busy()
                await env.settle0()
                await env.sleep(T / 2)
                nontrivial = True
            if tm.check(where + " (before the loss)"):
                break
            lost_at = env.now()
            if step["how"] == "eof":
                conn.eof()
            elif step["how"] == "reset":
                conn.reset(case.get("reset_how", "reset"))
            else:
                conn.fail_writes(0)
                if during == "idle" or case.get("_poisoned"):
                    conn.eof()  # with nothing being written the loss shows as EOF
            break
    if lost_at is None and tm.error_deadline is None and tm.must_close_at is None \
            and not conn.server_gone:
        # let the idle timer run out: the server must close at exactly idle-start + T
        exp = tm.expected_close()
        if exp is not None:
            await env.sleep(max(0.0, exp - env.now()) + 4 * EPS)  # (just past the deadline)
            await env.settle0()
            tm.check("end of history")
            if nreq:
                nontrivial = True
    await env.settle(5000 * T + 50)
    return {"conn": conn, "lost_at": lost_at, "nontrivial": nontrivial, "timer": tm}


async def run_h2(env: Any, case: Dict[str, Any], app: Any) -> Dict[str, Any]:
    T = case["T"]
    opening = case.get("opening", "alpn")
    conn = env.connect(alpn="h2", tls=True) if opening == "alpn" else env.connect()
    client = H2Client(conn)
    if opening == "h2c_bad_settings":
        # an upgrade offer whose HTTP2-Settings is no settings payload (not base64, a truncated
        # setting, a value out of range): whatever the server makes of it - refuse and close,
        # or serve the request as HTTP/1.1 - nothing is in progress afterwards, so by T the
        # connection is closed
        app.programs["/up"] = [["recv_all"], ["respond", 200, [["content-length", "2"]], ["ok"]]]
        conn.send(b"GET /up HTTP/1.1\r\nHost: x\r\nConnection: Upgrade, HTTP2-Settings\r\n"
                  b"Upgrade: h2c\r\nHTTP2-Settings: " + case.get("bad_settings", "!!!").encode()
                  + b"\r\n\r\n")
        await env.settle0()
        await env.sleep(T + 4 * EPS)
        await env.settle0()
        if not conn.server_gone:
            raise Violation("not_closed_after_failed_upgrade", f"h2c offer with HTTP2-Settings "
                            f"{case.get('bad_settings')!r}: answered {bytes(conn.received()[:60])!r}, "
                            f"still open at t={env.now()} (T={T})", backend=env.backend)
        await env.settle(50 * T + 50)
        return {"conn": conn, "lost_at": None, "nontrivial": True,
                "timer": Timer(env, conn, T, env.backend)}
    if opening in ("h2c", "h2c_unknown_host"):
        # (with an unknown host the upgraded request is answered 404 by the server itself)
        host = b"x" if opening == "h2c" else b"unknown.invalid"
        app.programs["/up"] = [["recv_all"], ["respond", 200, [["content-length", "2"]], ["ok"]]]
        payload = client.h2.initiate_upgrade_connection()
        conn.send(b"GET /up HTTP/1.1\r\nHost: " + host + b"\r\nConnection: Upgrade, HTTP2-Settings\r\n"
                  b"Upgrade: h2c\r\nHTTP2-Settings: " + payload + b"\r\n\r\n")
        await env.settle0()
        rx = conn.received()
        end = rx.find(b"\r\n\r\n")
        if not rx.startswith(b"HTTP/1.1 101") or end < 0:
            raise Violation("h2c_upgrade_failed", repr(rx[:100]), backend=env.backend)
        client.pos = end + 4
        client.flush()
        client._st(1)
    else:
        client.start()
    await env.settle0()
    client.pump()
    await env.settle0()
    tm = Timer(env, conn, T, env.backend)
    tm.idle_since = 0.0
    n = 0
    lost_at = None
    nontrivial = False

    def open_stream(delay: float) -> int:
        nonlocal n
        path = f"/s{n}"
        n += 1
        app.programs[path] = [["recv_all"], ["sleep", delay],
                              ["respond", 200, [["content-length", "2"]], ["ok"]]]
        return client.request([(b":method", b"GET"), (b":scheme", b"https"),
                               (b":authority", b"x"), (b":path", path.encode())],
                              end_stream=True)

    for i, step in enumerate(case["steps"]):
        where = f"step {i} {step['op']}"
        client.pump()
        if tm.check(where + " (before)"):
            break
        op = step["op"]
        if op == "pause":
            if n and step["dur"] >= T:
                nontrivial = True
            await env.sleep(step["dur"])
        elif op == "terminated":
            await env.set_terminated()
            tm.terminated_at = env.now()
            await env.settle0()
        elif op == "reset_stream":
            if tm.terminated_at is not None:
                continue
            sid = open_stream(1000 * T)
            tm.busy()
            await env.settle0()
            await env.sleep(step["after"])
            client.pump()
            if tm.check(where + " (before the reset)"):
                break
            try:
                client.h2.reset_stream(sid)
                client.flush()
            except Exception as e:
                raise Violation("client_refused", repr(e), backend=env.backend)
            nontrivial = True
            t_rst = env.now()
            await env.settle0()
            tm.idle(t_rst)
            tm.notes.append(f"client reset its only stream at {t_rst}")
        elif op == "ws_lingering":
            if tm.terminated_at is not None:
                continue
            app.programs["/wsl"] = [["recv"], ["send", {"type": "websocket.accept"}],
                                    ["send", {"type": "websocket.close", "code": 1000}],
                                    ["recv_disc"]]
            try:
                ws_sid = client.request(
                    [(b":method", b"CONNECT"), (b":protocol", b"websocket"),
                     (b":scheme", b"https"), (b":authority", b"x"), (b":path", b"/wsl"),
                     (b"sec-websocket-version", b"13")], end_stream=False)
            except Exception as e:
                raise Violation("client_refused", repr(e), backend=env.backend)
            tm.busy()
            await env.settle0()
            client.pump()
            t0 = env.now()
            open_stream(step["delay"])
            await env.settle0()
            nontrivial = True
            await env.sleep(step["delay"] / 2)
            client.pump()
            if tm.check(where + " (request in progress next to the closed WebSocket)"):
                break
            await env.sleep(max(0.0, t0 + step["delay"] - env.now()))
            client.pump()
            try:  # the client lets go of the WebSocket stream: nothing is open any more
                client.h2.reset_stream(ws_sid)
                client.flush()
            except Exception as e:
                raise Violation("client_refused", repr(e), backend=env.backend)
            t_rst = env.now()
            await env.settle0()
            tm.idle(t_rst)
            tm.notes.append(f"lingering WebSocket stream reset at {t_rst}")
        elif op == "rejected":
            if tm.terminated_at is not None:
                continue
            t0 = env.now()
            try:
                if step["what"] == "server_name":
                    client.request([(b":method", b"GET"), (b":scheme", b"https"),
                                    (b":authority", b"unknown.invalid"), (b":path", b"/x")],
                                   end_stream=True)
                elif step["what"] == "ws_early_data":
                    # WebSocket data before the application has accepted: answered 400
                    app.programs["/wsearly"] = [["recv"], ["sleep", 1000 * T], ["return"]]
                    sid = client.request(
                        [(b":method", b"CONNECT"), (b":protocol", b"websocket"),
                         (b":scheme", b"https"), (b":authority", b"x"), (b":path", b"/wsearly"),
                         (b"sec-websocket-version", b"13")], end_stream=False)
                    await env.settle0()
                    client.h2.send_data(sid, b"\x81\x80\x00\x00\x00\x00")
                    client.flush()
                else:
                    client.request([(b":method", b"CONNECT"), (b":protocol", b"websocket"),
                                    (b":scheme", b"https"), (b":authority", b"x"),
                                    (b":path", b"/ws")], end_stream=False)
            except Exception as e:
                raise Violation("client_refused", repr(e), backend=env.backend)
            nontrivial = True
            await env.settle0()
            client.pump()
            await env.settle0()
            tm.idle(t0)
            tm.notes.append(f"rejected request ({step['what']}) at {t0}")
        elif op in ("stream", "two_streams"):
            if tm.terminated_at is not None:
                continue
            t0 = env.now()
            delays = [step["delay"]] if op == "stream" else [step["d1"], step["d2"]]
            for d in delays:
                open_stream(d)
            tm.busy()
            await env.settle0()
            longest = max(delays)
            if step.get("terminate_inside") and longest > 0:
                nontrivial = True
                await env.sleep(longest / 4)
                await env.set_terminated()
                tm.terminated_at = env.now()
                tm.notes.append(f"terminated at {tm.terminated_at} inside a stream")
                await env.settle0()
                client.pump()
                if tm.check(where + " (shutdown began inside the busy period)"):
                    break
            if longest >= T:
                nontrivial = True
                await env.sleep(max(0.0, t0 + longest / 2 - env.now()))
                client.pump()
                if tm.check(where + " (inside the busy period)"):
                    break
            await env.sleep(max(0.0, t0 + longest - env.now()))
            client.pump()
            await env.settle0()
            tm.idle(t0 + longest)
        elif op == "peer_loss":
            if step["during"] == "busy" and tm.terminated_at is None:
                open_stream(3 * T)
                tm.busy()
                await env.settle0()
                await env.sleep(T / 2)
                nontrivial = True
            if tm.check(where + " (before the loss)"):
                break
            lost_at = env.now()
            conn.eof() if step["how"] == "eof" else conn.reset(case.get("reset_how", "reset"))
            break
    if lost_at is None and not conn.server_gone:
        exp = tm.expected_close()
        if exp is not None:
            await env.sleep(max(0.0, exp - env.now()) + 4 * EPS)  # (just past the deadline)
            await env.settle0()
            tm.check("end of history")
            if n:
                nontrivial = True
    await env.settle(5000 * T + 50)
    return {"conn": conn, "lost_at": lost_at, "nontrivial": nontrivial, "timer": tm}


async def run_ws(env: Any, case: Dict[str, Any], app: Any) -> Dict[str, Any]:
    T = case["T"]
    carrier = "h1" if case["proto"] == "ws1" else "h2"
    server_close = case["end"] == "server_close"
    app.programs["/ws"] = [["recv"], ["send", {"type": "websocket.accept"}]] + (
        [["sleep", case["pause_open"] + T], ["send", {"type": "websocket.close", "code": 1000}]]
        if server_close else []) + [["ws_loop", {"echo": True}]]
    ws = WSSession(env, carrier, direct=True)
    await env.sleep(case["pause_before"])
    status = await ws.open(path="/ws")
    conn = ws.conn
    tm = Timer(env, conn, T, env.backend)
    tm.busy()
    out = {"conn": conn, "lost_at": None, "nontrivial": True, "timer": tm}
    if status not in (101, 200):
        raise Violation("handshake_failed", f"{status}", backend=env.backend)
    await env.sleep(case["pause_open"])
    await ws.pump()
    tm.check("after a pause with the WebSocket open")
    await ws.send(b"".join(message_frames("text", b"still there?", [])))
    await env.settle0()
    await ws.pump()
    if not server_close and b"still there?" not in ws.server_bytes():
        raise Violation("websocket_dead_after_pause", f"no echo after {case['pause_open']}s "
                        f"(T={T})", backend=env.backend)
    end = case["end"]
    if end == "client_close":
        await ws.send(close_frame(1000))
        await env.settle0()
    elif end == "server_close":
        await env.sleep(2 * T)
        await ws.pump()
        await ws.send(close_frame(1000))
        await env.settle0()
    elif end == "eof":
        out["lost_at"] = env.now()
        conn.eof()
    else:
        out["lost_at"] = env.now()
        conn.reset()
    await env.settle(5000 * T + 50)
    return out


def judge_end(case: Dict[str, Any], obs: Any) -> None:
    be = obs.backend
    tag = {"backend": be, "proto": case["proto"]}
    if case.get("ping_factor") is not None:
        tag["server_pings"] = True
    if obs.spin:
        raise Violation("spin", obs.spin, **tag)
    val = obs.value
    conn = val["conn"]
    if conn.handler_exc is not None:
        raise Violation("handler_exception", repr(conn.handler_exc), **tag)
    dead = find_queue_deadlock(obs)
    if dead:
        raise Violation("app_queue_deadlock", dead, **tag)
    started_behind = [i for i in obs.instances if i.scope.get("path") == "/behind"]
    if started_behind:
        raise Violation("request_started_on_dead_connection", "the response ahead of it could "
                        f"not be written (peer gone); the request waiting behind was started at "
                        f"t={started_behind[0].start_t}", **tag)
    exits = [i.exit_t for i in obs.instances if i.exit_t is not None and not i.running_at_end]
    running = [i for i in obs.instances if i.running_at_end]
    gone_at = val["lost_at"] if val["lost_at"] is not None else conn.server_eof_at
    if gone_at is None:
        return
    if running:
        raise Violation("task_outlives_connection", f"connection over at t={gone_at} but "
                        f"application {[i.scope.get('path') for i in running]} still running "
                        f"at the end of the history", **tag)
    if conn.handler_done_at is None:
        raise Violation("handler_outlives_connection", f"connection over at t={gone_at}, "
                        f"applications returned at {exits}, handler still alive {obs.alive}",
                        **tag, lost=val["lost_at"] is not None)
    limit = max([gone_at] + exits)
    if case.get("ping_factor") is not None and case.get("ping_sleep_allowed") \
            and conn.handler_done_at > limit:
        limit += case["ping_factor"] * case["T"] + EPS
        val["adjusted"] = "adjusted:ping_task_sleeps_on"
    if conn.handler_done_at > limit:
        raise Violation("handler_finishes_late", f"connection over at t={gone_at}, last "
                        f"application returned at t={max(exits) if exits else None}, handler "
                        f"finished only at t={conn.handler_done_at} (T={case['T']})", **tag,
                        lost=val["lost_at"] is not None)
    if conn.closed_at is None or conn.closed_at > limit:
        raise Violation("transport_closed_late", f"closed_at={conn.closed_at} limit={limit}",
                        **tag)


def run_case(case: Dict[str, Any]) -> CaseInfo:
    case = dict(case)
    cfg = {"keep_alive_timeout": case["T"], "server_names": []}
    if any(s.get("what") in ("server_name", "ws_server_name") for s in case.get("steps", [])):
        cfg["server_names"] = ["example.com", "x"]
    if case.get("opening") == "h2c_unknown_host":
        cfg["server_names"] = ["example.com", "x"]
    if case.get("ping_factor") is not None:
        cfg["websocket_ping_interval"] = case["ping_factor"] * case["T"]
    nontrivial = False
    adjusted: set = set()
    for be in BACKENDS:
        holder: Dict[str, Any] = {}
        case.pop("_poisoned", None)

        def factory(env: Any, obs: Any) -> Any:
            from sim.apps import ScriptedApp

            obs.app = ScriptedApp({}, env)
            holder["app"] = obs.app
            return obs.app.wrapper()

        async def sc(env: Any) -> Any:
            if case["proto"] == "h1":
                return await run_h1(env, case, holder["app"])
            if case["proto"] == "h2":
                return await run_h2(env, case, holder["app"])
            return await run_ws(env, case, holder["app"])

        obs = run_sim(be, cfg, {}, sc, app_factory=factory, sched=case.get("sched", 0))
        judge_end(case, obs)
        nontrivial = nontrivial or obs.value["nontrivial"]
        if obs.value.get("adjusted"):
            adjusted.add(obs.value["adjusted"])
    classes = ["proto=" + case["proto"], f"T={case['T']}"] + sorted(adjusted)
    if case.get("opening"):
        classes.append("opening=" + case["opening"])
    if case.get("ping_factor") is not None:
        classes.append(f"ping_interval={case['ping_factor']}T")
    for s in case.get("steps", []):
        classes.append("op=" + s["op"] + (":" + s["what"] if "what" in s else "")
                       + (":" + s["how"] + "/" + s["during"] if s["op"] == "peer_loss" else ""))
    return CaseInfo(nontrivial, classes, evals=2)


def parts() -> List[Part]:
    return [
        Part("h1", run_case, strategy=h1_history, quick=1500, thorough=100000,
             rule="HTTP/1.1 histories"),
        Part("h2", run_case, strategy=h2_history, quick=800, thorough=50000,
             rule="HTTP/2 histories (idle = no open stream)"),
        Part("ws", run_case, strategy=ws_history, quick=400, thorough=20000,
             rule="WebSocket sessions on both carriers with pauses up to 1000 T while open"),
    ]
