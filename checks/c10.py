"""C10 - WebSocket message fidelity and message-size limit."""
from __future__ import annotations

from typing import Any, Dict, List

from hypothesis import strategies as st

from gen.http import segmentation
from gen.wsdrive import WSSession
from sim.run import BACKENDS, run_sim
from vlib.core import CaseInfo, Part, Violation
from wire.h1 import b2s, s2b
from wire.ws import (assemble_messages, close_frame, message_frames, parse_server_frames,
                     ping_frame)

PROPERTY = "C10"
LEVEL = "exploration"
RULE = (
    "message sequences (text/binary; empty, 1 byte, multi-byte UTF-8, sizes around "
    "websocket_max_message_size 0..64 and large) x byte-level fragmentation (also inside a code "
    "point) x permessage-deflate x pings between fragments x read segmentation x both carriers "
    "x both workers; application echoes or sends its own list; oracle = round trip through own "
    "RFC 6455 encoder/decoder; non-trivial = a fragmented message, a multi-segment delivery, or "
    "a size within +-1 of the limit"
)
ASSUMPTIONS = [
    "in-memory transport models (sim/); h2 library builds the HTTP/2 carrier frames",
    "pings sent after the start of an over-limit message are unconstrained",
]
T_BIG = 100000.0

_text = st.one_of(
    st.text(alphabet="abcXYZ 019", max_size=12),
    st.text(alphabet=st.characters(min_codepoint=0x20, max_codepoint=0x2FFFF,
                                   exclude_categories=["Cs"]), max_size=10),
)


@st.composite
def message(draw: Any, limit: int) -> Dict[str, Any]:
    kind = draw(st.sampled_from(["text", "binary"]))
    near = draw(st.integers(0, 3)) == 0 and limit <= 200
    if kind == "text":
        if near:
            n = max(0, limit + draw(st.sampled_from([-1, 0, 1])))
            chars = draw(st.lists(st.sampled_from(["a", "é", "€", "😀", "z"]), min_size=n,
                                  max_size=n))
            payload = "".join(chars)
        else:
            payload = draw(_text)
        wire_len = len(payload.encode("utf-8"))
    else:
        if near:
            n = max(0, limit + draw(st.sampled_from([-1, 0, 1])))
        else:
            n = draw(st.sampled_from([0, 1, 2, 5, 17, 126, 200, 70000]))
            if n == 70000 and draw(st.integers(0, 3)) != 0:
                n = draw(st.integers(0, 40))
        seed = draw(st.integers(0, 255))
        payload = b2s(bytes((seed + i * 13) % 256 for i in range(n)))
        wire_len = n
    ncuts = draw(st.integers(0, 3))
    return {
        "kind": kind, "payload": payload,
        "cuts": draw(st.lists(st.integers(1, max(1, wire_len)), min_size=ncuts, max_size=ncuts)),
        "compress": draw(st.booleans()),
        # (control frames carry 0..125 bytes: both ends of the range are produced)
        "pings": draw(st.lists(st.one_of(st.text(alphabet="pq0", max_size=5), st.just(""),
                                         st.just("p" * 125)), max_size=2)),
    }


@st.composite
def case_strategy(draw: Any, carrier: str) -> Dict[str, Any]:
    limit = draw(st.sampled_from([0, 1, 2, 7, 16, 64, 64, 1 << 24, 1 << 24, 1 << 24]))
    msgs = draw(st.lists(message(limit), min_size=1, max_size=5))
    return {
        "carrier": carrier, "sched": draw(st.integers(0, 999)),
        "deflate": draw(st.booleans()), "limit": limit, "messages": msgs,
        # websocket_ping_interval: the server's own pings land between (never inside) the
        # frames the application's messages travel in
        "server_ping": draw(st.sampled_from([None, None, None, 0.5, 7.0])),
        "seg": draw(segmentation()),
        "app": draw(st.sampled_from(["echo", "echo", "collect"])),
        "app_messages": draw(st.lists(st.one_of(
            st.builds(lambda t: {"text": t}, _text),
            st.builds(lambda n, s: {"bytes": b2s(bytes((s + i) % 256 for i in range(n)))},
                      st.sampled_from([0, 1, 10, 300, 70000, 150000]), st.integers(0, 255))),
            max_size=3)),
        "client_close": draw(st.sampled_from([1000, 1000, 3001, None])),
        "bytes_as": draw(st.sampled_from(["bytes", "bytes", "bytearray", "memoryview"])),
        # another WebSocket connection of the same worker, opened first and still open: what it
        # negotiated (compression) and exchanged must not leak into this one
        "prelude": draw(st.sampled_from([None, None, {"deflate": True}, {"deflate": False}])),
        # HTTP/2 carrier: the client returns flow-control credit at once, or only after it has
        # sent everything it has to say (the server's messages wait on an exhausted window while
        # the client's messages and pings keep arriving)
        "credit": draw(st.sampled_from(["prompt", "prompt", "late"])) if carrier == "h2"
        else "prompt",
        # the client's Close frame travels in the same write as its last messages and pings
        # (they come first: every one of those pings is still owed a pong)
        "close_with": draw(st.sampled_from([False, False, True])),
    }


def size_of(m: Dict[str, Any]) -> int:
    return len(m["payload"])  # characters for text, bytes for binary (latin-1 str of bytes)


def wire_payload(m: Dict[str, Any]) -> bytes:
    return m["payload"].encode("utf-8") if m["kind"] == "text" else s2b(m["payload"])


def app_program(case: Dict[str, Any]) -> list:
    prog: list = [["recv"], ["send", {"type": "websocket.accept"}]]
    for am in case["app_messages"]:
        msg: Dict[str, Any] = {"type": "websocket.send"}
        if "text" in am:
            msg["text"] = am["text"]
        else:
            msg["bytes"] = am["bytes"]
            msg["$body_as"] = case.get("bytes_as", "bytes")
        prog.append(["send", msg])
    prog.append(["ws_loop", {"echo": case["app"] == "echo"}])
    return prog


PRELUDE_TEXT = "prelude prelude prelude prelude"


async def scenario(env: Any, case: Dict[str, Any]) -> Any:
    pre = None
    if case.get("prelude"):
        pre = WSSession(env, "h1")
        st_pre = await pre.open(path="/pre", key_seed=9, extensions="permessage-deflate"
                                if case["prelude"]["deflate"] else None)
        if st_pre != 101:
            raise Violation("harness", f"prelude handshake answered {st_pre}")
        neg = any(n == b"sec-websocket-extensions" and b"permessage-deflate" in v
                  for n, v in pre.headers)
        await pre.send(b"".join(message_frames("text", PRELUDE_TEXT.encode(), [],
                                               compress=neg, mask_seed=77)))
        await env.settle(5.0)
    ws = WSSession(env, case["carrier"])
    if case.get("credit") == "late":
        ws.ack_policy = "manual"  # from the start: what the application sends on accepting counts
    status = await ws.open(extensions="permessage-deflate" if case["deflate"] else None)
    out = {"ws": ws, "status": status, "negotiated": False, "pre": pre}
    if status not in (101, 200):
        return out
    negotiated = any(n == b"sec-websocket-extensions" and b"permessage-deflate" in v
                     for n, v in ws.headers)
    out["negotiated"] = negotiated
    stream = bytearray()
    for i, m in enumerate(case["messages"]):
        frames = message_frames(m["kind"], wire_payload(m), m["cuts"],
                                compress=bool(m["compress"] and negotiated), mask_seed=i)
        pings = list(m["pings"])
        # Known finding C10-1 (wsproto): a control frame between the fragments of a *compressed*
        # message corrupts it. That shape is excluded by construction (the pings follow the
        # message instead) unless the committed replay asks for it.
        hazard = bool(m["compress"] and negotiated and len(frames) > 1 and pings)
        inside = not hazard or case.get("ping_inside_compressed", False)
        if hazard and not inside:
            out["adjusted"] = out.get("adjusted", 0) + 1
        for j, fr in enumerate(frames):
            stream += fr
            if inside and pings and j < len(frames) - 1:
                stream += ping_frame(pings.pop(0).encode())
        for p in pings:
            stream += ping_frame(p.encode())
    late = case.get("credit") == "late" and ws.client is not None
    if case.get("close_with"):
        stream += close_frame(case["client_close"])
    await ws.send(bytes(stream), seg=case["seg"])
    await env.settle(50.0)
    await ws.pump()
    if late:
        ws.client.ack_policy = "immediate"
        for _ in range(200):
            had = bool(ws.client.unacked)
            ws.client.release_acks()
            await ws.pump()
            await env.settle(5.0)
            await ws.pump()
            if not had and not ws.client.unacked:
                break
    if not case.get("close_with"):
        await ws.send(close_frame(case["client_close"]))
        await env.settle(50.0)
        await ws.pump()
    await ws.end()
    if pre is not None:
        await pre.send(b"".join(message_frames("text", PRELUDE_TEXT.encode(), [], mask_seed=78)))
        await env.settle(5.0)
        await pre.pump()
        await pre.end()
    return out


def judge(case: Dict[str, Any], obs: Any) -> Dict[str, Any]:
    if not case.get("ping_inside_compressed"):
        return _judge(case, obs)
    try:
        return _judge(case, obs)
    except Violation as v:
        if v.kind in ("handler_exception", "spin"):
            raise
        raise Violation("compressed_fragment_ping_corruption", f"{v.kind}: {v.detail}",
                        backend=obs.backend)


def _judge(case: Dict[str, Any], obs: Any) -> Dict[str, Any]:
    be = obs.backend
    if obs.spin:
        raise Violation("spin", obs.spin, backend=be)
    val = obs.value
    ws: WSSession = val["ws"]
    if ws.conn.handler_exc is not None:
        raise Violation("handler_exception", repr(ws.conn.handler_exc), backend=be)
    if val["status"] != (101 if case["carrier"] == "h1" else 200):
        raise Violation("handshake_failed", f"status {val['status']}", backend=be)
    if case["deflate"] and not val["negotiated"]:
        raise Violation("deflate_not_negotiated", f"{ws.headers}", backend=be)
    insts = [i for i in obs.instances if i.scope.get("path") != "/pre"]
    if len(insts) != 1:
        raise Violation("instance_count", f"{len(insts)}", backend=be)
    if val.get("pre") is not None and case["limit"] >= len(PRELUDE_TEXT):
        pframes, _, perr = parse_server_frames(val["pre"].server_bytes())
        pevents, perr2 = assemble_messages(pframes) if not perr else ([], perr)
        echoed = [e["data"] for e in pevents if e["kind"] == "text"]
        if perr or perr2 or echoed != [PRELUDE_TEXT, PRELUDE_TEXT]:
            raise Violation("other_connection_disturbed", f"the connection opened first got "
                            f"{_short(echoed)} {perr or perr2}", backend=be)
    inst = insts[0]
    if inst.exit and inst.exit.startswith("raise"):
        bad = [s_ for s_ in inst.sends if s_.get("outcome", "").startswith("raise")]
        raise Violation("valid_send_raised", f"application exit {inst.exit}; failing send: "
                        f"{_short(bad[-1]['msg']) if bad else None} -> "
                        f"{bad[-1]['outcome'] if bad else None}", backend=be)
    limit = case["limit"]
    msgs = case["messages"]
    over = next((i for i, m in enumerate(msgs) if size_of(m) > limit), None)
    deliverable = msgs if over is None else msgs[:over]
    got = [m for m in inst.received if m["type"] == "websocket.receive"]
    want = []
    for m in deliverable:
        if m["kind"] == "text":
            want.append(("text", m["payload"]))
        else:
            want.append(("bytes", s2b(m["payload"])))
    got_n = []
    for g in got:
        if g.get("text") is not None and g.get("bytes") is None:
            got_n.append(("text", g["text"]))
        elif g.get("bytes") is not None and g.get("text") is None:
            got_n.append(("bytes", bytes(g["bytes"])))
        else:
            raise Violation("receive_shape", f"{ {k: v for k, v in g.items() if k[0] != '_'} }",
                            backend=be)
    if got_n != want:
        if len(got_n) > len(want) and got_n[:len(want)] == want:
            kind = "delivered_beyond_limit" if over is not None else "message_duplicated"
        elif len(got_n) < len(want) and got_n == want[:len(got_n)]:
            kind = "message_lost"
        else:
            kind = "message_corrupted"
        raise Violation(kind, f"application received {_short(got_n)}; client sent "
                        f"{_short(want)} (limit {limit}, first over-limit index {over})",
                        backend=be)
    # --- what the server sent
    frames, consumed, err = parse_server_frames(ws.server_bytes())
    if err:
        raise Violation("server_frames_malformed", err, backend=be)
    events, err = assemble_messages(frames)
    if err:
        raise Violation("server_frames_malformed", err, backend=be)
    closes = [e for e in events if e["kind"] == "close"]
    if over is not None:
        if not closes or closes[0]["code"] != 1009:
            raise Violation("no_1009", f"over-limit message {over} (size {size_of(msgs[over])} > "
                            f"{limit}) but close frames: {closes}", backend=be)
    elif closes and closes[0]["code"] == 1009:
        raise Violation("spurious_1009", f"all messages within the limit {limit} "
                        f"(sizes {[size_of(m) for m in msgs]})", backend=be)
    # --- pings answered in order (those before the over-limit message)
    pings = []
    for i, m in enumerate(msgs):
        if over is not None and i >= over:
            break
        pings += [p.encode() for p in m["pings"]]
    pongs = [e["payload"] for e in events if e["kind"] == "pong"]
    if pongs[:len(pings)] != pings:
        raise Violation("pong_mismatch", f"pings {pings} answered by pongs {pongs}", backend=be)
    # --- messages the application sent reach the client identical and in order
    sent = []
    for srec in inst.sends:
        msg = srec["msg"]
        if msg.get("type") != "websocket.send" or srec.get("outcome") != "ok":
            continue
        if msg.get("bytes") is not None:
            b = msg["bytes"]
            sent.append(("binary", b["$raw"] if isinstance(b, dict) else s2b(b)))
        else:
            sent.append(("text", msg["text"]))
    data_events = [(e["kind"], e["data"]) for e in events if e["kind"] in ("text", "binary")]
    # sends made after the closing handshake began may legitimately be dropped: compare the
    # prefix that was sent before any close frame appeared on the wire
    early_close = bool(case.get("close_with"))  # the closing handshake began with the stream
    if over is None and case["app"] == "collect" and not early_close:
        if data_events != sent:
            raise Violation("app_message_mismatch", f"client received {_short(data_events)}; "
                            f"application sent {_short(sent)}", backend=be)
    else:
        n = len(data_events)
        if data_events != sent[:n]:
            raise Violation("app_message_mismatch", f"client received {_short(data_events)}; "
                            f"application sent {_short(sent)}", backend=be)
        if over is None and not early_close and n != len(sent):
            raise Violation("app_message_lost", f"client received {n} of {len(sent)} messages",
                            backend=be)
    return {"over": over, "adjusted": val.get("adjusted", 0)}


def _short(x: Any) -> str:
    s = repr(x)
    return s if len(s) < 300 else s[:300] + "..."


def programs_for(case: Dict[str, Any]) -> Dict[str, list]:
    return {"/ws": app_program(case),
            "/pre": [["recv"], ["send", {"type": "websocket.accept"}],
                     ["ws_loop", {"echo": True, "tolerate": True}]]}


def run_case(case: Dict[str, Any]) -> CaseInfo:
    cfg = {"keep_alive_timeout": T_BIG, "websocket_max_message_size": case["limit"]}
    if case.get("server_ping") is not None:
        cfg["websocket_ping_interval"] = case["server_ping"]
    programs = programs_for(case)

    async def sc(env: Any) -> Any:
        return await scenario(env, case)

    info = {}
    for be in BACKENDS:
        obs = run_sim(be, cfg, programs, sc, sched=case.get("sched", 0))
        info = judge(case, obs)
    msgs = case["messages"]
    fragmented = any(m["cuts"] for m in msgs)
    near = any(abs(size_of(m) - case["limit"]) <= 1 for m in msgs)
    classes = ["carrier=" + case["carrier"], "deflate=%s" % case["deflate"],
               "seg=" + case["seg"]["mode"], "app=" + case["app"]]
    if case.get("server_ping") is not None:
        classes.append("server_pings")
    if fragmented:
        classes.append("fragmented")
    if near:
        classes.append("near_limit")
    if info.get("over") is not None:
        classes.append("over_limit")
    if any(m["pings"] for m in msgs):
        classes.append("pings")
    if info.get("adjusted"):
        classes.append("adjusted:ping_in_compressed_fragments")
    if case.get("prelude"):
        classes.append("other_connection_deflate=%s" % case["prelude"]["deflate"])
    return CaseInfo(fragmented or near or case["seg"]["mode"] != "one", classes, evals=2)


def parts() -> List[Part]:
    return [
        Part("h1", run_case, strategy=lambda: case_strategy("h1"), quick=1400, thorough=70000,
             rule="WebSocket over HTTP/1.1 upgrade"),
        Part("h2", run_case, strategy=lambda: case_strategy("h2"), quick=700, thorough=35000,
             rule="WebSocket over HTTP/2 extended CONNECT"),
    ]
