"""C14 - lifespan protocol ordering, failure handling and state isolation (server level)."""
from __future__ import annotations

from typing import Any, Dict, List, Optional

from hypothesis import strategies as st

from sim.serve import run_serve
from sim.run import BACKENDS
from vlib.core import CaseInfo, Part, Violation
from wire.h1 import parse_responses

PROPERTY = "C14"
LEVEL = "fault_enumeration"
RULE = (
    "lifespan scripts at startup {complete, failed, raise, hang, return early, unknown message} "
    "after a generated delay relative to startup_timeout and likewise at shutdown, with state "
    "written at startup, crossed with client connection attempts before / after startup and "
    "requests in flight when shutdown is triggered, through hypercorn.asyncio.serve and "
    "hypercorn.trio.serve over a unix socket under virtual time; oracle = event-order "
    "invariants over the global log (startup before any accept / request scope, serve() raises "
    "on failed or timed-out startup and nothing is served, lifespan.shutdown exactly once and "
    "not before connections drained or graceful_timeout elapsed, per-connection state copies); "
    "non-trivial = startup outcome other than immediate complete, or a client attempt before "
    "startup completed"
)
ASSUMPTIONS = [
    "unix-domain sockets deliver synchronously inside one process, so the virtual clocks stay "
    "deterministic",
]

START = ["complete", "complete", "complete", "failed", "raise", "hang", "return_early", "unknown"]
STOP = ["complete", "complete", "failed", "raise", "hang", "return_early", "complete_stay"]


@st.composite
def case_strategy(draw: Any) -> Dict[str, Any]:
    st_to = draw(st.sampled_from([1.0, 5.0, 60.0]))
    case = {
        "sched": draw(st.integers(0, 999)),
        "startup": draw(st.sampled_from(START)),
        "startup_delay": draw(st.sampled_from([0.0, 0.5, 0.9])) * st_to,
        "startup_timeout": st_to,
        "shutdown": draw(st.sampled_from(STOP)),
        "shutdown_delay": draw(st.sampled_from([0.0, 0.5, 2.0])),
        "shutdown_timeout": draw(st.sampled_from([3.0, 60.0])),
        "graceful": draw(st.sampled_from([0.5, 3.0])),
        "early_attempt_at": draw(st.sampled_from([None, 0.0, 0.3])),
        "requests": draw(st.lists(st.fixed_dictionaries({
            "at": st.sampled_from([0.0, 0.1, 1.0]),
            "delay": st.sampled_from([0.0, 0.3, 2.0, 10.0]),
            "new_conn": st.booleans()}), min_size=0, max_size=4)),
        "trigger_after": draw(st.sampled_from([0.2, 1.5, 4.0])),
        # the "message" of *.failed is optional in the lifespan specification
        "failed_message": draw(st.booleans()),
        # whether the lifespan application stores anything: an empty state is copied per
        # connection just the same
        "boot_state": draw(st.sampled_from([True, True, False])),
        # *.failed sent from a child task of the application's own task group: the error the
        # server raises in that send reaches it wrapped in an exception group
        "in_group": draw(st.sampled_from([False, False, True])),
        # after startup.failed the application spends this long on awaited clean-up before
        # its coroutine ends (the failure has been announced all the same)
        "linger": draw(st.sampled_from([0.0, 0.0, 0.5, 2.0])),
    }
    if case["startup"] in ("raise", "return_early") and draw(st.booleans()):
        # the application leaves the lifespan scope at once, before the server has sent it
        # anything (what a WSGI wrapper, or an app without lifespan support, does)
        case["no_recv"] = True
        case["startup_delay"] = 0.0
    return case


def _failed(typ: str, case: Dict[str, Any]) -> dict:
    msg = {"type": typ}
    if case.get("failed_message", True):
        msg["message"] = "scripted"
    return msg


def lifespan_program(case: Dict[str, Any]) -> list:
    prog: list = ([] if case.get("no_recv") else [["recv"]]) \
        + ([["set_state", "boot", 7]] if case.get("boot_state", True) else []) \
        + [["sleep", case["startup_delay"]]]
    s = case["startup"]
    if s == "complete":
        prog.append(["send", {"type": "lifespan.startup.complete"}])
    elif s == "failed":
        if case.get("linger") and not case.get("in_group"):
            prog.append(["send_linger", _failed("lifespan.startup.failed", case), case["linger"]])
        else:
            prog.append(["send_in_group" if case.get("in_group") else "send",
                         _failed("lifespan.startup.failed", case)])
        return prog
    elif s == "raise":
        # from a task group of the application's own the error arrives as an exception group
        prog.append(["raise_group"] if case.get("in_group") else ["raise", "ValueError"])
        return prog
    elif s == "hang":
        prog.append(["sleep", 1e7])
        return prog
    elif s == "return_early":
        prog.append(["return"])
        return prog
    else:
        prog.append(["send", {"type": "lifespan.bogus"}])
        return prog
    prog += [["recv"], ["snap_state"], ["sleep", case["shutdown_delay"]]]
    e = case["shutdown"]
    if e == "complete":
        prog.append(["send", {"type": "lifespan.shutdown.complete"}])
    elif e == "complete_stay":
        # an application that loops on receive(): still there after it has said complete
        prog += [["send", {"type": "lifespan.shutdown.complete"}], ["recv"]]
    elif e == "failed":
        prog.append(["send_in_group" if case.get("in_group") else "send",
                     _failed("lifespan.shutdown.failed", case)])
    elif e == "raise":
        prog.append(["raise_group"] if case.get("in_group") else ["raise", "ValueError"])
    elif e == "hang":
        prog.append(["sleep", 1e7])
    else:
        prog.append(["return"])
    return prog


def programs_for(case: Dict[str, Any]) -> Dict[str, list]:
    progs: Dict[str, list] = {"lifespan": lifespan_program(case)}
    for i, r in enumerate(case["requests"]):
        progs[f"/r{i}"] = [["set_state", "seen", i], ["recv_all"], ["sleep", r["delay"]],
                           ["respond", 200, [["content-length", "2"]], ["ok"]]]
    return progs


def serving_expected(case: Dict[str, Any]) -> bool:
    s = case["startup"]
    if s == "failed":
        return False
    if s == "hang":
        return False
    return True


async def scenario(env: Any, case: Dict[str, Any]) -> Dict[str, Any]:
    out: Dict[str, Any] = {"early": None, "clients": [], "triggered_at": None, "conn_of": {}}
    env.start_server()
    await env.settle0()
    t_ready = case["startup_delay"]
    if case["early_attempt_at"] is not None and case["early_attempt_at"] < t_ready:
        await env.sleep(case["early_attempt_at"])
        out["early"] = await env.connect(which=case.get("sched", 0) % 2)
    if case["startup"] == "hang":
        await env.sleep(case["startup_timeout"] + 1.0)
        out["late"] = await env.connect()
        await env.settle(50.0)
        return out
    await env.sleep(max(0.0, t_ready - env.now()))
    await env.settle0()
    if not serving_expected(case):
        out["late"] = await env.connect()
        await env.settle(50.0)
        return out
    t0 = env.now()
    conn = None
    for idx, r in sorted(enumerate(case["requests"]), key=lambda p: (p[1]["at"], p[0])):
        await env.sleep(max(0.0, t0 + r["at"] - env.now()))
        if conn is None or r["new_conn"] or conn.server_gone:
            conn = await env.connect(which=len(out["clients"]) % 2)  # both listening sockets
            out["clients"].append(conn)
        if conn.refused:
            continue
        out["conn_of"][idx] = conn.cid
        conn.send(f"GET /r{idx} HTTP/1.1\r\nHost: x\r\n\r\n".encode())
        await env.settle0()
    await env.sleep(max(0.0, t0 + case["trigger_after"] - env.now()))
    out["triggered_at"] = env.now()
    env.trigger_shutdown()
    await env.settle(case["graceful"] + case["shutdown_timeout"] + case["shutdown_delay"] + 100.0)
    return out


def judge(case: Dict[str, Any], res: Any) -> None:
    be = res.backend
    tag = {"backend": be, "startup": case["startup"], "shutdown": case["shutdown"]}
    if res.spin:
        raise Violation("spin", res.spin, **tag)
    val = res.value
    log = res.log
    life = [i for i in res.instances if i.scope.get("type") == "lifespan"]
    https = [i for i in res.instances if i.scope.get("type") == "http"]
    if len(life) != 1:
        raise Violation("lifespan_instance_count", f"{len(life)}", **tag)
    L = life[0]
    if case.get("no_recv"):
        if L.received:
            raise Violation("harness", "the lifespan application was meant not to receive")
    elif not L.received or L.received[0]["type"] != "lifespan.startup" \
            or L.received[0]["_t"] != 0.0:
        raise Violation("startup_not_first", f"{[(m['type'], m['_t']) for m in L.received]}",
                        **tag)
    connected = [e for e in log.events if e["kind"] == "connected"]
    t_ready = case["startup_delay"]
    for e in connected:
        if e["t"] < t_ready - 1e-6:
            raise Violation("accepted_before_startup_complete", f"client connected at t={e['t']}"
                            f", startup finished at t={t_ready}", **tag)
    for i in https:
        if i.start_t < t_ready - 1e-6:
            raise Violation("request_before_startup_complete", f"{i.scope.get('path')} at "
                            f"t={i.start_t} < {t_ready}", **tag)
    if val.get("early") is not None and not val["early"].refused:
        raise Violation("accepted_before_startup_complete", "connection attempt at "
                        f"t={case['early_attempt_at']} was accepted", **tag)
    s = case["startup"]
    if s in ("failed", "hang"):
        want_at = t_ready if s == "failed" else case["startup_timeout"]
        if res.serve_exc is None:
            raise Violation("startup_failure_not_raised", f"startup {s}: serve() "
                            f"{'returned' if res.serve_returned_at is not None else 'still running'}"
                            f" without an error", **tag)
        name = type(res.serve_exc).__name__
        inner = repr(res.serve_exc)
        want = "LifespanFailureError" if s == "failed" else "LifespanTimeoutError"
        slack = case.get("linger", 0.0) if s == "failed" and not case.get("in_group") else 0.0
        if s == "failed" and want_at + slack >= case["startup_timeout"] - 1e-6 and \
                "LifespanTimeoutError" in name + inner:
            # the application was still busy leaving when the startup time-out ran out: the
            # server may report that instead - aborted with an error either way
            want, want_at, slack = "LifespanTimeoutError", case["startup_timeout"], 0.0
        if want not in name and want not in inner:
            raise Violation("startup_failure_wrong_error", f"{inner}", **tag)
        if not want_at - 1e-6 <= res.serve_returned_at <= want_at + slack + 1e-6:
            raise Violation("startup_failure_time", f"serve() raised at t={res.serve_returned_at}"
                            f", expected {want_at}", **tag)
        if https or connected:
            raise Violation("served_after_failed_startup", f"{len(https)} requests, "
                            f"{len(connected)} connections", **tag)
        if val.get("late") is not None and not val["late"].refused:
            raise Violation("served_after_failed_startup", "late connection accepted", **tag)
        return
    # ---- serving happened
    if res.serve_exc is not None and not (s == "complete" and case["shutdown"] in ("failed",
                                                                                     "hang")):
        raise Violation("serve_raised", f"{res.serve_exc!r}", **tag)
    t_trig = val["triggered_at"]
    # requests that were started get a complete response if they finish within the grace period
    for c in val["clients"]:
        if c.refused:
            raise Violation("connection_refused_while_serving", f"t={c.connected_at}", **tag)
    # state isolation
    # each connection starts from a copy of the startup state; requests of one connection share
    # it, different connections never see each other's writes
    last_on_conn: Dict[int, int] = {}
    for i in sorted(https, key=lambda i: i.start_seq):
        idx = int(i.scope.get("path")[2:])
        cid = val["conn_of"].get(idx)
        want = {"boot": 7} if case.get("boot_state", True) else {}
        if cid in last_on_conn:
            want["seen"] = last_on_conn[cid]
        last_on_conn[cid] = idx
        st_ = i.scope_copy.get("state")
        if st_ != want:
            raise Violation("connection_state_not_isolated", f"{i.scope.get('path')} (connection "
                            f"{cid}) started with state {st_}, expected {want}", **tag)
    for t, snap in L.state_snaps:
        if snap != ({"boot": 7} if case.get("boot_state", True) else {}):
            raise Violation("lifespan_state_polluted", f"state at shutdown {snap}", **tag)
    # lifespan.shutdown exactly once (when the lifespan application is still there), not early
    downs = [m for m in L.received if m["type"] == "lifespan.shutdown"]
    alive_for_shutdown = s == "complete"
    if alive_for_shutdown:
        if len(downs) != 1:
            raise Violation("shutdown_message_count", f"{len(downs)} lifespan.shutdown messages",
                            **tag)
        t_down = downs[0]["_t"]
        deadline = t_trig + case["graceful"]
        for i in https:
            if i.start_t <= t_trig:
                fin = i.exit_t if (i.exit_t is not None and not i.running_at_end) else 1e18
                need = min(fin, deadline)
                if t_down < need - 1e-6:
                    raise Violation("shutdown_before_drain", f"lifespan.shutdown at t={t_down} "
                                    f"while {i.scope.get('path')} ran until t={fin} (trigger "
                                    f"{t_trig}, graceful {case['graceful']})", **tag)
        if t_down < t_trig:
            raise Violation("shutdown_before_trigger", f"{t_down} < {t_trig}", **tag)
        # the application is waited for (up to shutdown_timeout) while it shuts down
        if case["shutdown"] in ("complete", "complete_stay") \
                and case["shutdown_delay"] < case["shutdown_timeout"] and not any(
                    s_["msg"].get("type") == "lifespan.shutdown.complete"
                    and s_.get("outcome") == "ok" for s_ in L.sends):
            raise Violation("lifespan_shutdown_cut_short", f"lifespan.shutdown at t={t_down}; "
                            f"the application needed {case['shutdown_delay']}s of "
                            f"{case['shutdown_timeout']}s and ended as {L.exit}", **tag)
    elif downs:
        raise Violation("shutdown_message_count", f"{len(downs)} for a lifespan app that left",
                        **tag)
    # serve() ends
    e = case["shutdown"]
    if res.serve_returned_at is None:
        raise Violation("serve_never_returned", f"triggered at {t_trig}", **tag)
    # requests finishing within the grace period are answered in full
    for c in val["clients"]:
        resps, _, err = parse_responses(c.received(), ["GET"] * 6, c.server_gone)
        if err:
            raise Violation("malformed_response", err, **tag)


def run_case(case: Dict[str, Any]) -> CaseInfo:
    cfg = {"startup_timeout": case["startup_timeout"], "shutdown_timeout": case["shutdown_timeout"],
           "graceful_timeout": case["graceful"], "keep_alive_timeout": 1000.0}
    progs = programs_for(case)

    async def sc(env: Any) -> Any:
        return await scenario(env, case)

    for be in BACKENDS:
        res = run_serve(be, cfg, progs, sc, sched=case.get("sched", 0))
        judge(case, res)
    classes = ["startup=" + case["startup"], "shutdown=" + case["shutdown"],
               f"requests={len(case['requests'])}"]
    early = case["early_attempt_at"] is not None and case["early_attempt_at"] < case["startup_delay"]
    if early:
        classes.append("early_attempt")
    return CaseInfo(case["startup"] != "complete" or case["startup_delay"] > 0 or early, classes,
                    evals=2)


def parts() -> List[Part]:
    return [Part("lifespan", run_case, strategy=case_strategy, quick=1200, thorough=30000,
                 rule="lifespan scripts x client attempts x in-flight requests at shutdown")]
