"""C19 - configuration sources agree; CLI flags; binds; root_path; response headers."""
from __future__ import annotations

import calendar
import importlib
import itertools
import os
import shutil
import socket
import sys
import tempfile
import warnings
from typing import Any, Dict, List

from hypothesis import strategies as st

from vlib.core import CaseInfo, Inconclusive, Part, VERIF, Violation

PROPERTY = "C19"
LEVEL = "exploration"
RULE = (
    "Hypothesis-generated configuration mappings / CLI argument vectors / bind strings / "
    "instants, plus exhaustive enumeration of all CLI option pairs; a case is non-trivial when "
    "it sets at least one non-default value; distinct by digest of the case JSON"
)
ASSUMPTIONS = [
    "hypercorn.run.run is replaced by a recorder (as tests/test___main__.py does)",
    "loopback 127.0.0.0/8 and ::1 are bindable in the sandbox",
    "flag -> attribute table transcribed from docs/how_to_guides/configuring.rst",
    "aioquic is not installed: for the alt-svc values derived from QUIC binds the constant "
    "aioquic.h3.connection.H3_ALPN is provided as ['h3'] while those cases run",
]

WORK = VERIF / ".work"

# --------------------------------------------------------------------------- value strategies

_text = st.text(
    alphabet=st.characters(min_codepoint=1, max_codepoint=0x2FF, exclude_categories=["Cs"]),
    max_size=12,
)
_plain = st.text(alphabet="abcdefghijklmnopqrstuvwxyzABCXYZ0123456789_./:-% ", max_size=12)
_str = st.one_of(_plain, _text)
_int = st.one_of(st.integers(-3, 70000), st.integers(-(2**40), 2**40))
_float = st.one_of(
    st.integers(0, 10000),
    st.floats(min_value=0, max_value=1e6, allow_nan=False, allow_infinity=False),
)
_bool = st.booleans()
_strlist = st.lists(_str, max_size=3)
_opt = lambda s: st.one_of(st.none(), s)  # noqa: E731

KEYS: Dict[str, Any] = {
    "access_log_format": _str,
    "accesslog": _opt(_str),
    "alpn_protocols": _strlist,
    "alt_svc_headers": _strlist,
    "application_path": _str,
    "backlog": _int,
    "bind": st.one_of(_str, _strlist),
    "insecure_bind": st.one_of(_str, _strlist),
    "quic_bind": st.one_of(_str, _strlist),
    "ca_certs": _opt(_str),
    "certfile": _opt(_str),
    "ciphers": _str,
    "debug": _bool,
    "dogstatsd_tags": _str,
    "errorlog": _opt(_str),
    "graceful_timeout": _float,
    "read_timeout": _opt(_int),
    "group": _opt(_int),
    "h11_max_incomplete_size": _int,
    "h11_pass_raw_headers": _bool,
    "h2_max_concurrent_streams": _int,
    "h2_max_header_list_size": _int,
    "h2_max_inbound_frame_size": _int,
    "include_date_header": _bool,
    "include_server_header": _bool,
    "keep_alive_max_requests": _int,
    "keep_alive_timeout": _float,
    "keyfile": _opt(_str),
    "keyfile_password": _opt(_str),
    "logconfig": _opt(_str),
    "logconfig_dict": _opt(st.dictionaries(_plain.filter(lambda s: s != ""), _int, max_size=2)),
    "loglevel": _str,
    # the one class-valued setting: the generated value names a Logger subclass (see _pyval)
    "logger_class": st.sampled_from(["CustomLogger", "QuietLogger"]),
    "max_app_queue_size": _int,
    "max_requests": _opt(_int),
    "max_requests_jitter": _int,
    "pid_path": _opt(_str),
    "root_path": _str,
    "server_names": _strlist,
    "shutdown_timeout": _float,
    "ssl_handshake_timeout": _float,
    "startup_timeout": _float,
    "statsd_host": _opt(_str),
    "statsd_prefix": _str,
    "umask": _opt(_int),
    "use_reloader": _bool,
    "user": _opt(_int),
    "websocket_max_message_size": _int,
    "websocket_ping_interval": _opt(_float),
    "worker_class": _str,
    "workers": _int,
    "wsgi_max_body_size": _int,
    "cert_reqs": st.integers(0, 2),
    # read-only / unknown names: must be ignored or treated alike by every loader
    "ssl_enabled": _bool,
    "log": _str,
    "custom_setting": _str,
    "another_custom": _int,
}


@st.composite
def mapping_strategy(draw: Any) -> dict:
    keys = draw(st.lists(st.sampled_from(sorted(KEYS)), min_size=1, max_size=6, unique=True))
    return {k: draw(KEYS[k]) for k in keys}


def snapshot(config: Any) -> dict:
    from hypercorn.config import Config

    out = {}
    for k in dir(Config):
        if k.startswith("_") or k in ("log", "cert_reqs", "ssl_enabled"):
            continue  # private names are seen through their public property; derived values skipped
        v = getattr(config, k)
        if callable(v) and not isinstance(v, type):
            continue
        out[k] = _norm_class(v)
    for k, v in vars(config).items():
        out["inst:" + k] = _norm_class(v)
    return out


def _norm_class(v: Any) -> Any:
    """Classes made by different sources are different objects: compared by name and bases."""
    if isinstance(v, type):
        return "class:%s(%s)" % (v.__name__, ",".join(b.__name__ for b in v.__bases__))
    return v


def _live(mapping: dict) -> dict:
    """The mapping as a Python caller would pass it (logger_class as a real class)."""
    out = dict(mapping)
    if "logger_class" in out:
        from hypercorn.logging import Logger

        out["logger_class"] = type(out["logger_class"], (Logger,), {})
    return out


def _pysrc(k: str, v: Any, target: str = "") -> str:
    """One assignment of a Python configuration file / module."""
    if k == "logger_class":
        return (f"import hypercorn.logging\n"
                f"{target}{k} = type({v!r}, (hypercorn.logging.Logger,), {{}})\n")
    return f"{target}{k} = {v!r}\n"


def _diff(a: dict, b: dict) -> List[str]:
    out = []
    for k in sorted(set(a) | set(b)):
        va, vb = a.get(k, "<absent>"), b.get(k, "<absent>")
        if va != vb or type(va) is not type(vb):
            out.append(f"{k}: {va!r} != {vb!r}")
    return out


# --------------------------------------------------------------------------- (a) loaders agree


def _toml_str(s: str) -> str:
    out = ['"']
    for ch in s:
        o = ord(ch)
        if ch == '"':
            out.append('\\"')
        elif ch == "\\":
            out.append("\\\\")
        elif o < 0x20 or o == 0x7F:
            out.append("\\u%04x" % o)
        else:
            out.append(ch)
    out.append('"')
    return "".join(out)


def _toml_val(v: Any) -> str:
    if isinstance(v, bool):
        return "true" if v else "false"
    if isinstance(v, int):
        return str(v)
    if isinstance(v, float):
        r = repr(v)
        return r if ("." in r or "e" in r or "E" in r) else r + ".0"
    if isinstance(v, str):
        return _toml_str(v)
    if isinstance(v, list):
        return "[" + ", ".join(_toml_val(x) for x in v) + "]"
    if isinstance(v, dict):
        return "{" + ", ".join(f"{_toml_str(k)} = {_toml_val(x)}" for k, x in v.items()) + "}"
    raise TypeError(v)


_counter = itertools.count()


def run_loaders(case: dict) -> CaseInfo:
    from hypercorn.config import Config

    spec = case
    mapping = _live(case)
    WORK.mkdir(exist_ok=True)
    tmp = tempfile.mkdtemp(prefix="c19-", dir=WORK)
    modname = f"vcfg_{os.getpid()}_{next(_counter)}"

    def via(name: str, load: Any) -> dict:
        # the mapping form took these settings: a form that raises on them does not agree
        try:
            return snapshot(load())
        except Exception as e:
            raise Violation("loader_raised", f"{name}: {e!r} for {spec}", loader=name)

    try:
        with warnings.catch_warnings():
            warnings.simplefilter("ignore")
            ref = snapshot(Config.from_mapping(dict(mapping)))
            results = {"kwargs": via("kwargs", lambda: Config.from_mapping(**mapping))}
            results["mapping+kwargs"] = via("mapping+kwargs", lambda: Config.from_mapping(
                dict(list(mapping.items())[::2]), **dict(list(mapping.items())[1::2])))

            class Obj:
                pass

            o = Obj()
            for k, v in mapping.items():
                setattr(o, k, v)
            results["object"] = via("object", lambda: Config.from_object(o))

            # settings classes: values as class attributes, partly inherited from a base class,
            # partly set on the instance (the usual shape of a "Settings" object)
            items = list(mapping.items())
            Base = type("BaseSettings", (), dict(items[0::3]))
            Sub = type("Settings", (Base,), dict(items[1::3]))
            inst = Sub()
            for k, v in items[2::3]:
                setattr(inst, k, v)
            results["object(class attrs + inherited + instance)"] = via(
                "object(class attrs + inherited + instance)", lambda: Config.from_object(inst))
            results["object(class attrs only)"] = via(
                "object(class attrs only)",
                lambda: Config.from_object(type("AllSettings", (), dict(items))()))

            body = "".join(_pysrc(k, v) for k, v in spec.items())
            pyfile = os.path.join(tmp, "conf_file.py")
            with open(pyfile, "w", encoding="utf-8") as f:
                f.write(body)
            results["pyfile"] = via("pyfile", lambda: Config.from_pyfile(pyfile))

            with open(os.path.join(tmp, modname + ".py"), "w", encoding="utf-8") as f:
                f.write(body)
                f.write("class Holder:\n    pass\ninstance = Holder()\n")
                for k, v in spec.items():
                    f.write(_pysrc(k, v, "instance."))
            sys.path.insert(0, tmp)
            importlib.invalidate_caches()
            try:
                results["module-name.instance"] = via(
                    "module-name.instance", lambda: Config.from_object(f"{modname}.instance"))
                # the module form sees Holder/instance as extra attributes: compare settings only
                mod_snap = via("module-name", lambda: Config.from_object(modname))
                for extra in ("inst:Holder", "inst:instance"):
                    mod_snap.pop(extra, None)
                results["module-name"] = mod_snap
            finally:
                sys.path.remove(tmp)
                sys.modules.pop(modname, None)

            no_none = {k: v for k, v in mapping.items()
                       if v is not None and k != "logger_class"}  # TOML has no classes
            ref_toml = snapshot(Config.from_mapping(no_none))
            tfile = os.path.join(tmp, "conf.toml")
            with open(tfile, "w", encoding="utf-8") as f:
                for k, v in no_none.items():
                    f.write(f"{k} = {_toml_val(v)}\n")
            toml_snap = via("toml", lambda: Config.from_toml(tfile))
        for name, snap in results.items():
            d = _diff(ref, snap)
            if d:
                raise Violation("loader_disagrees", f"{name} vs mapping: {d}", loader=name)
        d = _diff(ref_toml, toml_snap)
        if d:
            raise Violation("loader_disagrees", f"toml vs mapping: {d}", loader="toml")
        # and the effect is the documented one: plain settings keep the given value
        for k, v in mapping.items():
            if k in ("cert_reqs", "log", "ssl_enabled", "root_path"):
                continue
            want = [v] if k in ("bind", "insecure_bind", "quic_bind") and isinstance(v, str) else v
            got = ref.get(k, ref.get("inst:" + k))
            if got != _norm_class(want):
                raise Violation("setting_not_applied", f"{k}: got {got!r} want {want!r}", key=k)
    finally:
        shutil.rmtree(tmp, ignore_errors=True)
    return CaseInfo(nontrivial=True, classes=[f"n_keys={len(mapping)}"], evals=8)


# --------------------------------------------------------------------------- (b) CLI flags

# flag spellings -> (attribute, kind); transcribed from docs/how_to_guides/configuring.rst
FLAGS: Dict[str, tuple] = {
    "--access-logformat": ("access_log_format", "str"),
    "--access-logfile": ("accesslog", "str"),
    "--access-log": ("accesslog", "str"),  # deprecated alias (see --help)
    "--backlog": ("backlog", "int"),
    "--bind": ("bind", "list"),
    "-b": ("bind", "list"),
    "--ca-certs": ("ca_certs", "str"),
    "--certfile": ("certfile", "str"),
    "--cert-reqs": ("verify_mode", "certreqs"),
    "--ciphers": ("ciphers", "str"),
    "--debug": ("debug", "flag"),
    "--error-logfile": ("errorlog", "str"),
    "--log-file": ("errorlog", "str"),
    "--error-log": ("errorlog", "str"),  # deprecated alias
    "--graceful-timeout": ("graceful_timeout", "int"),
    "--read-timeout": ("read_timeout", "int"),
    "--group": ("group", "int"),
    "-g": ("group", "int"),
    "--insecure-bind": ("insecure_bind", "list"),
    "--keep-alive": ("keep_alive_timeout", "int"),
    "--keyfile": ("keyfile", "str"),
    "--keyfile-password": ("keyfile_password", "str"),
    "--log-config": ("logconfig", "str"),
    "--log-level": ("loglevel", "str"),
    "--max-requests": ("max_requests", "int"),
    "--max-requests-jitter": ("max_requests_jitter", "int"),
    "--pid": ("pid_path", "str"),
    "-p": ("pid_path", "str"),
    "--quic-bind": ("quic_bind", "list"),
    "--root-path": ("root_path", "rootpath"),
    "--server-name": ("server_names", "list"),
    "--statsd-host": ("statsd_host", "str"),
    "--statsd-prefix": ("statsd_prefix", "str"),
    "--umask": ("umask", "int"),
    "-m": ("umask", "int"),
    "--reload": ("use_reloader", "flag"),
    "--user": ("user", "int"),
    "-u": ("user", "int"),
    "--verify-mode": ("verify_mode", "verifymode"),
    "--websocket-ping-interval": ("websocket_ping_interval", "int"),
    "--worker-class": ("worker_class", "str"),
    "-k": ("worker_class", "str"),
    "--workers": ("workers", "int"),
    "-w": ("workers", "int"),
}

_cli_str = st.text(
    alphabet=st.characters(min_codepoint=0x20, max_codepoint=0x17F, exclude_categories=["Cs"]),
    max_size=10,
).filter(lambda v: v != "--")  # argparse itself drops a value that is exactly "--" (even in
# the --flag=-- form): not a statement about hypercorn


def _value_strategy(kind: str) -> Any:
    if kind in ("str", "rootpath"):
        return _cli_str
    if kind == "list":
        return st.lists(_cli_str, min_size=1, max_size=3)
    if kind == "int":
        return st.integers(-1000, 100000)
    if kind == "flag":
        return st.just(True)
    if kind == "certreqs":
        return st.integers(0, 2)
    if kind == "verifymode":
        return st.sampled_from(["CERT_NONE", "CERT_OPTIONAL", "CERT_REQUIRED"])
    raise KeyError(kind)


def _argv_for(flag: str, kind: str, value: Any, eq_form: bool) -> List[str]:
    vals = value if kind == "list" else [value]
    out: List[str] = []
    for v in vals:
        if kind == "flag":
            out.append(flag)
            continue
        s = str(v)
        if flag.startswith("--") and (eq_form or s.startswith("-")):
            out.append(f"{flag}={s}")
        elif s.startswith("-") or s == "":
            # short option: attach the value (argparse form "-g5"); empty needs a separate arg
            out.extend([flag, s] if s == "" else [f"{flag}{s}"])
        else:
            out.extend([flag, s])
    return out


def _expected(kind: str, value: Any) -> Any:
    import ssl

    if kind == "rootpath":
        return value.rstrip("/")
    if kind == "certreqs":
        return ssl.VerifyMode(value)
    if kind == "verifymode":
        return ssl.VerifyMode[value]
    return value


FILE_KEYS = sorted(
    k for k in KEYS
    if k not in ("cert_reqs", "ssl_enabled", "log", "custom_setting", "another_custom",
                 "logconfig_dict", "application_path")
)


@st.composite
def cli_strategy(draw: Any) -> dict:
    flags = draw(st.lists(st.sampled_from(sorted(FLAGS)), min_size=1, max_size=4, unique=True))
    attrs = set()
    opts = []
    for fl in flags:
        attr, kind = FLAGS[fl]
        if attr in attrs:
            continue
        attrs.add(attr)
        opts.append({"flag": fl, "value": draw(_value_strategy(kind)), "eq": draw(st.booleans())})
    cfg = None
    if draw(st.booleans()):
        keys = draw(st.lists(st.sampled_from(FILE_KEYS), min_size=1, max_size=5, unique=True))
        cfg = {"form": draw(st.sampled_from(["toml", "file", "python"])),
               "values": {k: draw(KEYS[k]) for k in keys},
               # module / file names as users choose them (relative paths, names that begin
               # with the letters of the python: and file: prefixes)
               "name": draw(st.sampled_from(["vcli", "python_settings", "prod", "hypercorn_conf",
                                             "tuning", "live", "file_conf", "etc/e", "yaml"])),
               "relative": draw(st.booleans())}
    return {"opts": opts, "config": cfg, "app_first": draw(st.booleans()),
            "app_name": draw(st.sampled_from(["asgi:app", "asgi:app", "pkg.module:application",
                                              "wsgi:pkg.mod:app", "module"]))}


def _run_main(argv: List[str]) -> Any:
    import hypercorn.__main__ as hm

    captured = []
    orig = hm.run
    hm.run = lambda config: (captured.append(config), 0)[1]
    try:
        with warnings.catch_warnings():
            warnings.simplefilter("ignore")
            try:
                hm.main(argv)
            except SystemExit as e:
                raise Inconclusive(f"argparse rejected {argv}: {e}")
            except (ImportError, OSError, ValueError) as e:
                # every argv built here names a configuration source that exists
                raise Violation("config_source_not_loaded", f"argv={argv}: {e!r}")
    finally:
        hm.run = orig
    if len(captured) != 1:
        raise Violation("run_not_called_once", f"{len(captured)} calls for {argv}")
    return captured[0]


def run_cli(case: dict) -> CaseInfo:
    WORK.mkdir(exist_ok=True)
    tmp = tempfile.mkdtemp(prefix="c19cli-", dir=WORK)
    modname = f"vcli_{os.getpid()}_{next(_counter)}"
    try:
        base: List[str] = []
        cfg = case.get("config")
        file_values: dict = {}
        if cfg:
            file_values = {k: v for k, v in cfg["values"].items()}
            if cfg["form"] == "toml":
                file_values = {k: v for k, v in file_values.items() if v is not None}
                path = os.path.join(tmp, "c.toml")
                with open(path, "w", encoding="utf-8") as f:
                    for k, v in file_values.items():
                        f.write(f"{k} = {_toml_val(v)}\n")
                base = ["-c", path]
            elif cfg["form"] == "file":
                rel = cfg.get("name", "c") + ".py"
                path = os.path.join(tmp, rel)
                os.makedirs(os.path.dirname(path), exist_ok=True)
                with open(path, "w", encoding="utf-8") as f:
                    for k, v in file_values.items():
                        f.write(f"{k} = {v!r}\n")
                if cfg.get("relative"):
                    os.chdir(tmp)
                    base = ["--config", "file:" + rel]
                else:
                    base = ["--config", "file:" + path]
            else:
                modname = cfg.get("name", "vcli").replace("/", "_") + "_" + modname
                with open(os.path.join(tmp, modname + ".py"), "w", encoding="utf-8") as f:
                    for k, v in file_values.items():
                        f.write(f"{k} = {v!r}\n")
                base = ["--config=python:" + modname]
                sys.path.insert(0, tmp)
                importlib.invalidate_caches()
        try:
            argv_flags: List[str] = []
            for o in case["opts"]:
                attr, kind = FLAGS[o["flag"]]
                argv_flags += _argv_for(o["flag"], kind, o["value"], o["eq"])
            app = [case.get("app_name", "asgi:app")]
            if case.get("app_first"):
                full = app + base + argv_flags
                basev = app + base
            else:
                full = base + argv_flags + app
                basev = base + app
            baseline = snapshot(_run_main(basev))
            sys.modules.pop(modname, None)
            got = snapshot(_run_main(full))
        finally:
            os.chdir(str(VERIF))
            if tmp in sys.path:
                sys.path.remove(tmp)
            sys.modules.pop(modname, None)
        # the positional argument is the application
        for snap_, argv_ in ((baseline, basev), (got, full)):
            have = snap_.get("application_path", snap_.get("inst:application_path"))
            if have != app[0]:
                raise Violation("application_path_lost", f"argv={argv_}: application_path "
                                f"{have!r}, given {app[0]!r}", attr="application_path")
        # the config file itself must have taken effect in the baseline
        for k, v in file_values.items():
            want = [v] if k in ("bind", "insecure_bind", "quic_bind") and isinstance(v, str) else v
            if k == "root_path":
                want = v.rstrip("/")
            if baseline.get(k) != want:
                raise Violation("file_setting_lost", f"{k}: {baseline.get(k)!r} != {want!r}", key=k)
        want_snap = dict(baseline)
        for o in case["opts"]:
            attr, kind = FLAGS[o["flag"]]
            want_snap[attr] = _expected(kind, o["value"])
            inst = {"bind": "inst:_bind", "insecure_bind": "inst:_insecure_bind",
                    "quic_bind": "inst:_quic_bind", "root_path": "inst:_root_path"}.get(
                attr, "inst:" + attr)
            want_snap[inst] = want_snap[attr]
        d = _diff(want_snap, got)
        if d:
            first = d[0].split(": ")[0].replace("inst:", "").lstrip("_")
            raise Violation(
                "flag_effect",
                f"argv={full} differences(want != got)={d}",
                attr=first,
            )
    finally:
        shutil.rmtree(tmp, ignore_errors=True)
    return CaseInfo(
        nontrivial=True,
        classes=[f"n_flags={len(case['opts'])}", "config=" + (cfg["form"] if cfg else "none")],
        evals=2,
    )


_FIXED = {
    "str": ["value-a", "b c/d"],
    "rootpath": ["/api/", "/x/y"],
    "list": [["one"], ["two", "three"]],
    "int": [7, 42],
    "flag": [True, True],
    "certreqs": [1, 2],
    "verifymode": ["CERT_OPTIONAL", "CERT_REQUIRED"],
}


def enumerate_cli_pairs(tier: str) -> Any:
    flags = sorted(FLAGS)
    for fl in flags:
        for i in (0, 1):
            yield {"opts": [{"flag": fl, "value": _FIXED[FLAGS[fl][1]][i], "eq": bool(i)}],
                   "config": None, "app_first": bool(i)}
    file_cfg = {"form": "toml", "values": {
        "statsd_prefix": "pre.fix", "keep_alive_timeout": 9.5, "workers": 3,
        "max_requests_jitter": 11, "bind": ["1.2.3.4:9"], "debug": True, "loglevel": "DEBUG"}}
    for a, b in itertools.permutations(flags, 2):
        if FLAGS[a][0] == FLAGS[b][0]:
            continue
        if a > b and tier == "quick":
            continue  # quick: unordered pairs; thorough: both orders
        yield {"opts": [{"flag": a, "value": _FIXED[FLAGS[a][1]][0], "eq": False},
                        {"flag": b, "value": _FIXED[FLAGS[b][1]][1], "eq": True}],
               "config": None, "app_first": False}
    for fl in flags:
        yield {"opts": [{"flag": fl, "value": _FIXED[FLAGS[fl][1]][0], "eq": False}],
               "config": file_cfg, "app_first": False}


# --------------------------------------------------------------------------- (c) binds


@st.composite
def bind_strategy(draw: Any) -> dict:
    n = draw(st.integers(1, 3))
    binds = []
    for _ in range(n):
        shape = draw(st.sampled_from(["v4port", "v4bare", "v6port", "v6bare", "unix", "unix_rel",
                                      "fd", "v6bare_raw"]))
        host4 = "127.%d.%d.%d" % (draw(st.integers(0, 255)), draw(st.integers(0, 255)),
                                  draw(st.integers(1, 254)))
        port = draw(st.integers(20000, 60999))
        binds.append({"shape": shape, "host4": host4, "port": port,
                      "name": draw(st.text(alphabet="abcxyzuni019_-. :", min_size=1, max_size=10)),
                      "fdkind": draw(st.sampled_from(["tcp4", "tcp6", "unix", "udp4"])),
                      # unix: a socket file of an earlier run is still lying at the path
                      "stale": draw(st.sampled_from([False, False, True]))})
    return {"binds": binds, "sock_type": draw(st.sampled_from(["stream", "stream", "dgram"])),
            "workers": draw(st.integers(1, 3))}


def run_binds(case: dict) -> CaseInfo:
    from hypercorn.config import Config, SocketTypeError

    WORK.mkdir(exist_ok=True)
    tmp = tempfile.mkdtemp(prefix="c19b-", dir=WORK)
    type_ = socket.SOCK_STREAM if case["sock_type"] == "stream" else socket.SOCK_DGRAM
    opened: List[socket.socket] = []
    own: List[socket.socket] = []
    classes = []
    try:
        strings, expect = [], []
        for i, b in enumerate(case["binds"]):
            sh = b["shape"]
            classes.append("shape=" + sh)
            if sh == "v4port":
                strings.append(f"{b['host4']}:{b['port']}")
                expect.append((socket.AF_INET, (b["host4"], b["port"])))
            elif sh == "v4bare":
                strings.append(b["host4"])
                expect.append((socket.AF_INET, (b["host4"], 8000)))
            elif sh == "v6port":
                strings.append(f"[::1]:{b['port']}")
                expect.append((socket.AF_INET6, ("::1", b["port"])))
            elif sh == "v6bare":
                strings.append("[::1]")
                expect.append((socket.AF_INET6, ("::1", 8000)))
            elif sh == "v6bare_raw":
                # a bare host that is an IPv6 literal without brackets whose last group is not a
                # number (so it cannot be taken for a port): here a v4-mapped loopback address
                host = "::ffff:" + b["host4"]
                strings.append(host)
                expect.append((socket.AF_INET6, (host, 8000)))
            elif sh == "unix":
                path = os.path.join(tmp, f"{i}-{b['name']}.sock")
                if b.get("stale"):
                    old_sock = socket.socket(socket.AF_UNIX, socket.SOCK_STREAM)
                    old_sock.bind(path)
                    old_sock.close()  # the file stays behind, as after a crash
                    classes.append("stale_socket_file")
                strings.append("unix:" + path)
                expect.append((socket.AF_UNIX, path))
            elif sh == "unix_rel":  # relative to the working directory (the case's scratch dir)
                path = f"{b['name']}-{i}.sock"
                strings.append("unix:" + path)
                expect.append((socket.AF_UNIX, path))
            else:
                kind = b["fdkind"]
                fam, ty = {"tcp4": (socket.AF_INET, socket.SOCK_STREAM),
                           "tcp6": (socket.AF_INET6, socket.SOCK_STREAM),
                           "unix": (socket.AF_UNIX, socket.SOCK_STREAM),
                           "udp4": (socket.AF_INET, socket.SOCK_DGRAM)}[kind]
                s = socket.socket(fam, ty)
                if fam == socket.AF_UNIX:
                    s.bind(os.path.join(tmp, f"fd{i}.sock"))
                else:
                    s.bind(("::1" if fam == socket.AF_INET6 else "127.0.0.1", 0))
                own.append(s)
                strings.append(f"fd://{os.dup(s.fileno())}")
                expect.append(("fd", s, ty))
        config = Config()
        config.workers = case["workers"]
        config.bind = strings
        os.chdir(tmp)
        want_type_error = any(e[0] == "fd" and e[2] != type_ for e in expect)
        try:
            opened = config._create_sockets(config.bind, type_)
        except SocketTypeError:
            if want_type_error:
                return CaseInfo(True, classes + ["fd_type_mismatch"])
            raise Violation("bind_rejected", f"SocketTypeError for {strings}")
        except OSError as e:
            import errno

            tcp = any(b["shape"] in ("v4port", "v4bare", "v6port", "v6bare", "v6bare_raw")
                      for b in case["binds"])
            if e.errno in (errno.EADDRINUSE, errno.EADDRNOTAVAIL) and tcp:
                raise Inconclusive(f"address unavailable in sandbox: {e}")
            raise Violation("bind_failed", f"{strings}: {e!r}")
        except Exception as e:  # a well-formed bind string must not make socket creation raise
            raise Violation("bind_rejected", f"{strings}: {e!r}")
        if want_type_error:
            raise Violation("fd_type_not_checked", f"{strings} accepted for type {type_}")
        if len(opened) != len(strings):
            raise Violation("socket_count", f"{len(opened)} sockets for {strings}")
        for s, bs, ex in zip(opened, strings, expect):
            if ex[0] == "fd":
                o = ex[1]
                if s.family != o.family or s.type != o.type or s.getsockname() != o.getsockname():
                    raise Violation("fd_socket_differs", f"{bs}: {s} vs {o}", shape="fd")
                continue
            fam, addr = ex
            name = s.getsockname()
            if fam == socket.AF_INET6:
                name = name[:2]
            if s.family != fam or s.type != type_ or name != addr:
                raise Violation(
                    "bind_socket_wrong",
                    f"{bs!r}: family={s.family!r} type={s.type!r} name={s.getsockname()!r}; "
                    f"want {fam!r} {type_!r} {addr!r}",
                )
    finally:
        os.chdir(str(VERIF))
        for s in opened:
            try:
                s.close()
            except OSError:
                pass
        for s in own:
            s.close()
        shutil.rmtree(tmp, ignore_errors=True)
    return CaseInfo(True, classes)


# --------------------------------------------------------------------------- (d) root_path


def run_root_path(case: dict) -> CaseInfo:
    from hypercorn.config import Config

    v = case["value"]
    results = []
    c = Config()
    c.root_path = v
    results.append(c.root_path)
    results.append(Config.from_mapping({"root_path": v}).root_path)
    results.append(Config.from_mapping(root_path=v).root_path)
    for r in results:
        if r != results[0]:
            raise Violation("root_path_differs", f"{results}")
    r = results[0]
    if r.endswith("/"):
        raise Violation("root_path_trailing_slash", f"{v!r} -> {r!r}")
    if not v.startswith(r) or v[len(r):].strip("/") != "":
        raise Violation("root_path_changed", f"{v!r} -> {r!r}")
    c2 = Config()
    c2.root_path = r
    if c2.root_path != r:
        raise Violation("root_path_not_idempotent", f"{r!r} -> {c2.root_path!r}")
    return CaseInfo(nontrivial=v != "", classes=["trailing" if v.endswith("/") else "plain"])


# --------------------------------------------------------------------------- (e) response headers

_DAYS = ["Mon", "Tue", "Wed", "Thu", "Fri", "Sat", "Sun"]
_MONTHS = ["Jan", "Feb", "Mar", "Apr", "May", "Jun", "Jul", "Aug", "Sep", "Oct", "Nov", "Dec"]


def parse_imf_fixdate(b: bytes) -> int:
    """Strict RFC 7231 IMF-fixdate parser; returns the POSIX timestamp or raises ValueError."""
    s = b.decode("ascii")
    import re

    m = re.fullmatch(
        r"(Mon|Tue|Wed|Thu|Fri|Sat|Sun), (\d{2}) (Jan|Feb|Mar|Apr|May|Jun|Jul|Aug|Sep|Oct|Nov|Dec) "
        r"(\d{4}) (\d{2}):(\d{2}):(\d{2}) GMT",
        s,
    )
    if not m:
        raise ValueError(f"not IMF-fixdate: {s!r}")
    day, mon, year = int(m.group(2)), _MONTHS.index(m.group(3)) + 1, int(m.group(4))
    hh, mm, ss = int(m.group(5)), int(m.group(6)), int(m.group(7))
    if hh > 23 or mm > 59 or ss > 60:
        raise ValueError(s)
    ts = calendar.timegm((year, mon, day, hh, mm, ss, 0, 0, 0))
    if _DAYS[calendar.weekday(year, mon, day)] != m.group(1):
        raise ValueError(f"weekday wrong in {s!r}")
    return ts


@st.composite
def headers_strategy(draw: Any) -> dict:
    return {
        "now": draw(st.one_of(st.integers(0, 4102444800),
                              st.floats(min_value=0, max_value=4102444800.0))),
        "date": draw(st.booleans()),
        "server": draw(st.booleans()),
        "alt_svc": draw(st.lists(st.text(alphabet="abch3=\":0123456789; ", max_size=12),
                                 max_size=3)),
        "protocol": draw(st.sampled_from(["h11", "h2", "h3"])),
        # QUIC binds of a TLS configuration: with no alt-svc value configured the header is
        # derived from the ports actually bound (n sockets; created once or twice, as on a
        # restart with the same Config)
        "quic": draw(st.sampled_from([0, 0, 0, 1, 2])),
        "recreate": draw(st.booleans()),
        # another configuration of the same process bound QUIC sockets earlier
        "earlier_quic": draw(st.sampled_from([False, False, True])),
    }


def run_headers(case: dict) -> CaseInfo:
    import hypercorn.config as hc

    config = hc.Config.from_mapping(
        include_date_header=case["date"], include_server_header=case["server"],
        alt_svc_headers=list(case["alt_svc"]),
    )
    quic_ports: List[int] = []
    stubbed = []
    hc.Config._quic_addresses = []  # class-level default: every case starts from a clean one
    if case.get("earlier_quic"):
        first = hc.Config.from_mapping(certfile="c.pem", keyfile="k.pem", bind=["127.0.0.1:0"],
                                       quic_bind=["127.0.0.1:0"])
        socks0 = first.create_sockets()
        for s_ in socks0.secure_sockets + socks0.insecure_sockets + socks0.quic_sockets:
            s_.close()
    if case.get("quic"):
        import sys
        import types

        try:
            import aioquic.h3.connection  # noqa: F401
        except ImportError:
            # aioquic is not installed here: the one constant the header code reads from it is
            # provided (ASSUMPTIONS); removed again below
            pkg, h3, con = (types.ModuleType(n) for n in ("aioquic", "aioquic.h3",
                                                          "aioquic.h3.connection"))
            con.H3_ALPN = ["h3"]  # type: ignore[attr-defined]
            for m in (pkg, h3, con):
                sys.modules[m.__name__] = m
                stubbed.append(m.__name__)
        config.certfile, config.keyfile = "cert.pem", "key.pem"  # ssl_enabled; never loaded
        config.bind = ["127.0.0.1:0"]
        config.quic_bind = ["127.0.0.1:0"] * case["quic"]
        for _ in range(2 if case.get("recreate") else 1):
            socks = config.create_sockets()
            quic_ports = [s_.getsockname()[1] for s_ in socks.quic_sockets]
            for s_ in socks.secure_sockets + socks.insecure_sockets + socks.quic_sockets:
                s_.close()
    orig = hc.time
    hc.time = lambda: case["now"]
    try:
        try:
            headers = config.response_headers(case["protocol"])
            other = hc.Config().response_headers(case["protocol"])
        except ImportError as e:
            # only the derivation of alt-svc from QUIC addresses imports aioquic
            raise Violation("alt_svc_derived_without_quic_bind", f"{e!r} with quic binds "
                            f"{case.get('quic', 0)}")
    finally:
        hc.time = orig
        for name in stubbed:
            sys.modules.pop(name, None)
    if any(n == b"alt-svc" for n, _ in other):
        raise Violation("alt_svc_leaks_to_other_config", f"a fresh Config answers {other}")
    for n, v in headers:
        if not isinstance(n, bytes) or not isinstance(v, bytes):
            raise Violation("header_not_bytes", f"{n!r}: {v!r}")
    want = []
    dates = [v for n, v in headers if n == b"date"]
    if case["date"]:
        if len(dates) != 1:
            raise Violation("date_header_count", f"{headers}")
        try:
            ts = parse_imf_fixdate(dates[0])
        except ValueError as e:
            raise Violation("date_malformed", str(e))
        if ts != int(case["now"] // 1):
            raise Violation("date_wrong", f"now={case['now']} header={dates[0]!r} -> {ts}")
        want.append((b"date", dates[0]))
    if case["server"]:
        want.append((b"server", b"hypercorn-" + case["protocol"].encode()))
    for a in case["alt_svc"]:
        want.append((b"alt-svc", a.encode()))
    if not case["alt_svc"]:
        for port in quic_ports:
            want.append((b"alt-svc", b'h3=":%d"; ma=3600' % port))
    if headers != want:
        raise Violation("response_headers_wrong", f"got {headers} want {want}")
    return CaseInfo(
        nontrivial=not (case["date"] and case["server"] and not case["alt_svc"]),
        classes=[f"date={case['date']}", f"server={case['server']}", f"alt={len(case['alt_svc'])}"],
    )


# ---------------------------------------------------------------------------


def parts() -> List[Part]:
    return [
        Part("loaders", run_loaders, strategy=mapping_strategy, quick=1200, thorough=40000,
             rule="mapping of 1..6 config keys with typed values applied through 8 loader forms"),
        Part("cli", run_cli, strategy=cli_strategy, quick=1500, thorough=60000,
             rule="1..4 CLI options with generated values, optionally on top of a config file"),
        Part("cli_pairs", run_cli, enumerate=enumerate_cli_pairs,
             rule="every option alone (2 values), every pair of options with distinct settings "
                  "(thorough: both orders), every option over a config file"),
        Part("binds", run_binds, strategy=bind_strategy, quick=600, thorough=20000,
             rule="1..3 bind strings of shapes host:port, host, [v6]:port, [v6], unix:, fd://"),
        Part("root_path", run_root_path,
             strategy=lambda: st.builds(lambda v: {"value": v}, st.one_of(
                 st.text(alphabet="/ab%.", max_size=10), _text)),
             quick=500, thorough=20000, rule="root_path strings; non-trivial = non-empty"),
        Part("headers", run_headers, strategy=headers_strategy, quick=1200, thorough=40000,
             rule="instants 0..2100-01-01 x header switches; non-trivial = any non-default switch"),
    ]
