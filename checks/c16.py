"""C16 - protocol behaviour does not depend on the worker class (differential)."""
from __future__ import annotations

from typing import Any, Dict, List, Optional, Tuple

from hypothesis import strategies as st

import checks.c01 as c01
import checks.c03 as c03
import checks.c04 as c04
import checks.c06 as c06
import checks.c07 as c07
import checks.c10 as c10
from sim.apps import find_queue_deadlock
from sim.run import run_sim
from vlib.core import CaseInfo, Part, Violation
from wire.h1 import parse_responses
from wire.h2c import FrameAccounting
from wire.ws import assemble_messages, parse_server_frames

PROPERTY = "C16"
LEVEL = "exploration"
RULE = (
    "the generated client sessions and application scripts of C01 (HTTP/1 and HTTP/2 requests "
    "under segmentation), C06 (HTTP/1 pipelines), C10 (WebSocket sessions on both carriers), "
    "C03 (closure faults: EOF / reset / write failure / RST / shutdown at generated instants) "
    "and C04 (random bytes, mutated sessions, rare HTTP/2 frames) are each run on the asyncio "
    "and the trio worker under virtual time with pinned scheduling; oracle = equality of the "
    "normalised observations (per-instance scope and message sequences, per-response / "
    "per-stream / per-frame client events without the date, whether and at which virtual "
    "instant the server closed); non-trivial = a session with a fault, malformed input or at "
    "least two requests"
)
ASSUMPTIONS = [
    "wire write segmentation, frame boundaries and the relative order of events on different "
    "HTTP/2 streams are not compared (per-stream sequences are)",
    "back-pressure scenarios stay with C08 so the two transports' buffering never enters",
    "races between a server-initiated WebSocket close (1009) and the application's own sends, "
    "and the interleaving of pongs with application messages, are not compared",
]
T_BIG = 100000.0


def norm_headers(hs: List[Tuple[bytes, bytes]]) -> List[Tuple[bytes, bytes]]:
    return [(n, v) for n, v in hs if n != b"date"]


def observe(obs: Any, conn: Any) -> Dict[str, Any]:
    """Normalised observation of one simulated connection."""
    out: Dict[str, Any] = {}
    insts = []
    for i in obs.instances:
        sc = i.scope_copy
        msgs = []
        for m in i.received:
            t = m["type"]
            if t == "http.request":
                if msgs and msgs[-1][0] == "http.request" and msgs[-1][2]:
                    # chunk boundaries follow read sizes, which the transports may split
                    # differently: compare the concatenation
                    msgs[-1] = ("http.request", msgs[-1][1] + m.get("body", b""),
                                m.get("more_body", False))
                else:
                    msgs.append(("http.request", m.get("body", b""), m.get("more_body", False)))
            elif t == "websocket.receive":
                msgs.append((t, m.get("text"), m.get("bytes")))
            elif t == "websocket.disconnect":
                msgs.append((t, m.get("code")))
            else:
                msgs.append((t,))
        insts.append({
            "type": sc.get("type"), "path": sc.get("path"), "raw_path": sc.get("raw_path"),
            "method": sc.get("method"), "http_version": sc.get("http_version"),
            "query": sc.get("query_string"), "scheme": sc.get("scheme"),
            "headers": [(bytes(n), bytes(v)) for n, v in sc.get("headers", [])],
            "messages": msgs, "start_t": i.start_t,
            "state_at_start": dict(sc.get("state") or {}),
            "state_snaps": [snap for _, snap in i.state_snaps],
            "exit": "running" if i.running_at_end else ("raise" if (i.exit or "").startswith(
                "raise") else "return"),
        })
    out["instances"] = insts
    data = conn.received()
    # once the client has reset the connection "when the server closes" says nothing
    out["closed_at"] = "peer lost" if conn.peer_lost else conn.server_eof_at
    out["handler_exc"] = type(conn.handler_exc).__name__ if conn.handler_exc else None
    out["handler_done"] = conn.handler_done_at is not None
    if data[:5] == b"HTTP/" or not data:
        resps, leftover, err = parse_responses(data, ["GET"] * 16, conn.server_gone)
        out["h1"] = [(r.status, norm_headers(r.headers), r.body, r.complete,
                      [x.status for x in r.interim]) for r in resps]
        out["h1_err"] = err
        if resps and resps[-1].status == 101 and leftover:
            up = [v.lower() for v in resps[-1].header(b"upgrade")]
            if up == [b"websocket"]:
                out.update(ws_view(leftover))
            else:
                out["h2"] = h2_view(leftover)
        else:
            out["leftover"] = len(leftover)
    else:
        out["h2"] = h2_view(data)
    return out


def ws_view(data: bytes) -> Dict[str, Any]:
    """Data messages, pongs and closes as separate sequences: application messages and the
    reader's pong replies come from different tasks, their interleaving is not defined."""
    frames, _, ferr = parse_server_frames(data)
    events, aerr = assemble_messages(frames) if not ferr else ([], ferr)
    return {"ws_data": [(e["kind"], e.get("data")) for e in events
                        if e["kind"] in ("text", "binary")],
            "ws_pongs": [e.get("payload") for e in events if e["kind"] == "pong"],
            "ws_closes": [e.get("code") for e in events if e["kind"] == "close"],
            "ws_err": ferr or aerr}


def h2_view(data: bytes) -> Dict[str, Any]:
    acct = FrameAccounting().decode(data, max_frame=1 << 24)
    streams = {}
    for sid, s in sorted(acct.streams.items()):
        blocks = [norm_headers(hb) for hb in s.header_blocks]
        body: Any = bytes(s.data)
        if blocks and blocks[0][:1] == [(b":status", b"200")] and body[:1] in (
                b"\x81", b"\x82", b"\x88", b"\x89", b"\x8a", b"\x01", b"\x02", b"\xc1",
                b"\xc2", b"\x41", b"\x42"):
            view = ws_view(body)
            if not view["ws_err"]:
                body = view  # a WebSocket carried on this stream
        if s.rst is not None and not s.end_stream:
            # the server aborted this response: how much of what the application had handed
            # over was already on the wire is up to the scheduler (the send task and the
            # application's exit share an instant); C05 judges the prefix on each worker
            body = "aborted"
        streams[sid] = (blocks, body, s.end_stream, s.rst)
    return {"streams": streams, "goaway": acct.goaway, "error": acct.error,
            "settings": acct.settings}


# --------------------------------------------------------------------------- sources


def src_c06(case: Dict[str, Any]) -> Tuple[dict, dict, Any]:
    cfg = dict(case["cfg"])
    cfg["keep_alive_timeout"] = T_BIG
    programs = {f"/r{i}": c06.app_program(i, r) for i, r in enumerate(case["requests"])}
    programs["/tail"] = c06.TAIL_PROGRAM  # as in C06: the aborted request's application waits

    async def sc(env: Any) -> Any:
        return await c06.scenario(env, case)

    return cfg, programs, sc


def src_c01(case: Dict[str, Any]) -> Tuple[dict, dict, Any]:
    cfg = dict(case["cfg"])
    cfg["keep_alive_timeout"] = T_BIG
    programs = c01.programs_for(case)
    h1 = case["opening"].startswith("h1")

    async def sc(env: Any) -> Any:
        return await (c01.scenario_h1(env, case) if h1 else c01.scenario_h2(env, case))

    return cfg, programs, sc


def src_c10(case: Dict[str, Any]) -> Tuple[dict, dict, Any]:
    cfg = {"keep_alive_timeout": T_BIG, "websocket_max_message_size": case["limit"]}
    programs = c10.programs_for(case)

    async def sc(env: Any) -> Any:
        out = await c10.scenario(env, case)
        return out["ws"].conn

    return cfg, programs, sc


def src_c03(case: Dict[str, Any]) -> Tuple[dict, dict, Any]:
    cfg = {"keep_alive_timeout": c03.T_KEEPALIVE}
    programs = c03.programs_for(case)

    async def sc(env: Any) -> Any:
        out = await c03.scenario(env, case)
        return out["conn"]

    return cfg, programs, sc


def src_c04(case: Dict[str, Any]) -> Tuple[dict, dict, Any]:
    cfg = {"keep_alive_timeout": T_BIG}

    async def sc(env: Any) -> Any:
        return await c04.scenario(env, case)

    return cfg, c04.PROGRAMS, sc


def src_slow(case: Dict[str, Any]) -> Tuple[dict, dict, Any]:
    """A slow reader behind the bounded application queue, and a second stream after it."""
    from checks.c04 import H2Builder

    cfg = {"keep_alive_timeout": T_BIG, "max_app_queue_size": case["queue"]}
    programs = {"/slow": [["sleep", case["delay"]], ["echo"]], "/next": [["echo"]]}
    b = H2Builder()
    hs = [(b":method", b"POST"), (b":scheme", b"http"), (b":authority", b"x"), (b":path", b"/slow")]
    b.headers(1, hs, end_stream=False)
    for i in range(case["frames"]):
        b.data(1, bytes([65 + i % 26]) * case["size"], end_stream=(i == case["frames"] - 1))
    b.request(3, b"/next")

    async def sc(env: Any) -> Any:
        conn = env.connect()
        conn.send(bytes(b.out))
        await env.settle(case["delay"] + 50.0)
        conn.eof()
        await env.settle(50.0)
        return conn

    return cfg, programs, sc


def src_c07(case: Dict[str, Any]) -> Tuple[dict, dict, Any, Any]:
    """C07's histories (pauses, timers, rejected requests, shutdown inside requests). The timer
    model that C07 evaluates while a history runs is not the judge here: if it objects, the
    objection becomes part of the observation, and only a difference between the workers counts."""
    cfg = {"keep_alive_timeout": case["T"], "server_names": []}
    if any(s_.get("what") == "server_name" for s_ in case.get("steps", [])) \
            or case.get("opening") == "h2c_unknown_host":
        cfg["server_names"] = ["example.com", "x"]
    holder: Dict[str, Any] = {}

    def factory(env: Any, obs: Any) -> Any:
        from sim.apps import ScriptedApp

        obs.app = ScriptedApp({}, env)
        holder["app"] = obs.app
        return obs.app.wrapper()

    async def sc(env: Any) -> Any:
        inner = dict(case)
        inner.pop("_poisoned", None)
        note = None
        try:
            if inner["proto"] == "h1":
                await c07.run_h1(env, inner, holder["app"])
            elif inner["proto"] == "h2":
                await c07.run_h2(env, inner, holder["app"])
            else:
                await c07.run_ws(env, inner, holder["app"])
        except Violation as v:
            note = v.kind
            await env.settle(5000 * inner["T"] + 50)
        conn = env.conns[0]
        conn.model_note = note
        return conn

    return cfg, {}, sc, factory


def src_state(case: Dict[str, Any]) -> Tuple[dict, dict, Any]:
    """Several connections of one worker whose applications write to scope["state"]."""
    cfg = {"keep_alive_timeout": T_BIG}
    ok = ["respond", 200, [["content-length", "2"]], ["ok"]]
    programs = {f"/w{k}": [["set_state", f"key{k}", k], ["snap_state"], ["recv_all"], ok]
                for k in range(4)}
    programs["/r"] = [["snap_state"], ["recv_all"], ok]

    async def sc(env: Any) -> Any:
        conns: Dict[int, Any] = {}
        for ci, path in case["steps"]:
            if ci not in conns:
                conns[ci] = env.connect()
            conns[ci].send(f"GET {path} HTTP/1.1\r\nHost: x\r\n\r\n".encode())
            await env.settle(5.0)
        for c in conns.values():
            c.eof()
        await env.settle(50.0)
        return conns[case["steps"][-1][0]]

    return cfg, programs, sc


SOURCES = {"state": src_state, "c06": src_c06, "c01": src_c01, "c10": src_c10, "c03": src_c03, "c04": src_c04,
           "slow": src_slow, "c07": src_c07}


@st.composite
def case_strategy(draw: Any, source: str) -> Dict[str, Any]:
    if source == "c06":
        inner = draw(c06.case_strategy())
        for r in inner["requests"]:  # no big responses against the wire models (see ASSUMPTIONS)
            r["app"]["resp_len"] = min(r["app"]["resp_len"], 2000)
    elif source == "c01":
        inner = draw(c01.case_strategy(draw(st.sampled_from(["h1", "h2"]))))
    elif source == "c10":
        inner = draw(c10.case_strategy(draw(st.sampled_from(["h1", "h2"]))))
        # a server-initiated 1009 close races with the application's own sends (reader and
        # application are different tasks); which of them win is not defined, so the limit is
        # kept out of reach here (C10 judges the limit on each worker separately)
        inner["limit"] = 1 << 24
        # likewise the client's Close arriving together with its messages races with the
        # application's echoes (how many get out before the close is the scheduler's choice)
        inner["close_with"] = False
    elif source == "c03":
        inner = draw(c03.case_strategy(draw(st.sampled_from(["h1", "h2", "ws1", "ws2"]))))
        for a in inner["apps"]:
            a["chunk"] = min(a["chunk"], 2000)
        if inner["event"] == "write_fail":
            inner["event"] = "reset"  # where a write fails depends on the transport's buffering
        # ties inside one instant (an event racing the application's wake-up) are decided by the
        # scheduler, legitimately differently on the two workers: C03 judges them per worker
        if inner["event"] == "request_at_expiry":
            inner["event"] = "keepalive_expiry"
        inner["race"] = None
        if any(inner["when"] == a["delay"] for a in inner["apps"]):
            inner["when"] = inner["when"] + 0.05
    elif source == "state":
        inner = {"steps": draw(st.lists(st.tuples(
            st.integers(0, 2), st.sampled_from(["/w0", "/w1", "/w2", "/w3", "/r", "/r"])),
            min_size=2, max_size=6)), "sched": draw(st.integers(0, 999))}
    elif source == "c07":
        inner = draw(st.one_of(c07.h1_history(), c07.h2_history(), c07.ws_history()))
        # a peer loss through a failing write depends on the transport's buffering
        for st_ in inner.get("steps", []):
            if st_.get("how") == "write_fail":
                st_["how"] = "reset"
    elif source == "slow":
        inner = {"queue": draw(st.sampled_from([1, 2, 3, 10])),
                 "frames": draw(st.integers(1, 30)), "size": draw(st.sampled_from([1, 10, 500])),
                 "delay": draw(st.sampled_from([0.5, 2.0, 10.0])),
                 "sched": draw(st.integers(0, 999))}
    else:
        inner = draw(st.one_of(c04.bytes_case(), c04.mutate_case(), c04.grammar_case()))
    return {"source": source, "inner": inner}


def diff(a: Any, b: Any, path: str = "") -> Optional[str]:
    if isinstance(a, dict) and isinstance(b, dict):
        for k in sorted(set(a) | set(b), key=str):
            if k not in a or k not in b:
                return f"{path}.{k}: only on one side ({a.get(k)!r} vs {b.get(k)!r})"[:600]
            d = diff(a[k], b[k], f"{path}.{k}")
            if d:
                return d
        return None
    if isinstance(a, (list, tuple)) and isinstance(b, (list, tuple)):
        if len(a) != len(b):
            return f"{path}: {len(a)} vs {len(b)} items: {a!r} vs {b!r}"[:700]
        for i, (x, y) in enumerate(zip(a, b)):
            d = diff(x, y, f"{path}[{i}]")
            if d:
                return d
        return None
    if isinstance(a, float) and isinstance(b, float) and abs(a - b) <= 1e-6:
        return None  # the same instant: the two clocks add up their delays in different orders
    if a != b:
        return f"{path}: asyncio {a!r} != trio {b!r}"[:600]
    return None


def run_case(case: Dict[str, Any]) -> CaseInfo:
    inner = case["inner"]
    src = SOURCES[case["source"]](inner)
    cfg, programs, sc = src[:3]
    factory = src[3] if len(src) > 3 else None
    views = {}
    for be in ("asyncio", "trio"):
        obs = run_sim(be, cfg, programs, sc, sched=inner.get("sched", 0), app_factory=factory)
        if obs.spin:
            raise Violation("spin", obs.spin, backend=be)
        conn = obs.value
        if find_queue_deadlock(obs):
            raise Violation("app_queue_deadlock", find_queue_deadlock(obs), backend=be)
        views[be] = observe(obs, conn)
        views[be]["model_note"] = getattr(conn, "model_note", None)
        if case["source"] == "c01" and not isinstance(views[be]["closed_at"], str):
            # the C01 client is reactive (it waits for flow-control credit and the application
            # sleeps per received chunk, whose boundaries follow the transports' read sizes), so
            # the instant of its final EOF is not the same input on both workers
            views[be]["closed_at"] = views[be]["closed_at"] is not None
            for iv in views[be]["instances"]:
                iv["start_t"] = None
    ga = [(v.get("h2") or {}).get("goaway") for v in views.values()]
    if all(g is not None and g[1] != 0 for g in ga):
        # a connection error ended both sessions: what the applications had already put on
        # their streams when the error was processed is decided by the scheduler (the reader
        # and the application tasks run in the same instant); the error itself must agree
        for v in views.values():
            v["h2"]["streams"] = {sid: sv for sid, sv in v["h2"]["streams"].items()
                                  if all(sid in (w.get("h2") or {}).get("streams", {})
                                         and w["h2"]["streams"][sid] == sv
                                         for w in views.values())}
    d = diff(views["asyncio"], views["trio"])
    if d:
        field = d.split(":")[0].split(".")[1].split("[")[0] if "." in d else "?"
        raise Violation("workers_diverge", d, source=case["source"], field=field)
    a = views["asyncio"]
    nreq = len(a["instances"])
    fault = case["source"] in ("c03", "c04") or a.get("h1_err") or a["closed_at"] is not None
    return CaseInfo(bool(fault) or nreq >= 2, ["source=" + case["source"], f"instances={nreq}"],
                    evals=2)


def parts() -> List[Part]:
    ps = []
    for src, q in (("c06", 900), ("c01", 700), ("c10", 500), ("c03", 900), ("c04", 900),
                   ("slow", 300), ("c07", 2400), ("state", 200)):
        ps.append(Part(src, run_case, strategy=(lambda s=src: case_strategy(s)), quick=q,
                       thorough=q * 40, rule=f"sessions generated by {src.upper()}'s generators"))
    return ps
