"""C04 - no client input causes an internal error; HTTP/2 faults stay on their stream."""
from __future__ import annotations

import os
from typing import Any, Dict, List, Optional, Tuple

import hpack
from hyperframe.frame import (ContinuationFrame, DataFrame, ExtensionFrame, GoAwayFrame,
                              HeadersFrame, PingFrame, PriorityFrame, RstStreamFrame,
                              SettingsFrame, WindowUpdateFrame)
from hypothesis import strategies as st

from gen.http import apply_segmentation, deliver, make_body, segmentation
from sim.apps import find_queue_deadlock
from sim.run import BACKENDS, run_sim
from vlib.core import CaseInfo, Part, Violation
from wire.h1 import b2s, parse_responses, s2b
from wire.h2c import PREFACE, FrameAccounting
from wire.ws import (close_frame, encode_frame, handshake_request, make_key, message_frames,
                     parse_server_frames, ping_frame)

PROPERTY = "C04"
LEVEL = "exploration"
RULE = (
    "(1) random and token-soup byte strings, (2) bit/byte/splice/truncate/duplicate mutations of "
    "valid HTTP/1, HTTP/2 and WebSocket sessions, (3) grammar-generated legal-but-rare HTTP/2 "
    "frame sequences (PRIORITY before HEADERS, RST_STREAM / WINDOW_UPDATE on closed streams, "
    "CONTINUATION, padding, trailers, zero-length DATA, DATA after the response completed, plain "
    "CONNECT, non-ASCII :path, unknown frame types, SETTINGS variants) next to witness streams, "
    "(4) crafted malformed HTTP/1 classes, (5) HTTP/2 protocol violations, every segmentation, "
    "both workers, (6) thorough: coverage-guided atheris campaigns over the byte-level target; "
    "oracle = the connection handler never raises / no loop error / handler terminates, output "
    "re-parsed by own parsers, hinted 4xx + close for malformed HTTP/1, GOAWAY + close for "
    "HTTP/2 violations, witness streams complete; non-trivial = input not rejected at the "
    "first byte (a complete request line or frame was consumed)"
)
ASSUMPTIONS = [
    "failures are bucketed by oracle kind and innermost hypercorn frame: root causes, not "
    "inputs, are counted",
]
T_BIG = 100000.0

# --------------------------------------------------------------------------- session builders


def h1_session(seed: int) -> bytes:
    b1 = make_body(seed % 40, seed)
    parts = [
        b"GET /a?x=1 HTTP/1.1\r\nHost: example.com\r\nAccept: */*\r\n\r\n",
        b"POST /b HTTP/1.1\r\nHost: example.com\r\nContent-Length: " + str(len(b1)).encode()
        + b"\r\n\r\n" + b1,
        b"PUT /c HTTP/1.1\r\nHost: example.com\r\nTransfer-Encoding: chunked\r\n\r\n"
        b"5\r\nhello\r\n3;x=y\r\nabc\r\n0\r\n\r\n",
        b"GET /d HTTP/1.1\r\nHost: example.com\r\nConnection: close\r\n\r\n",
    ]
    return b"".join(parts)


class H2Builder:
    """Raw HTTP/2 client frames (hyperframe + hpack): can say what the h2 library refuses to."""

    def __init__(self) -> None:
        self.enc = hpack.Encoder()
        self.out = bytearray(PREFACE)
        f = SettingsFrame(0)
        self.out += f.serialize()

    def add(self, frame: Any) -> None:
        self.out += frame.serialize()

    def headers(self, sid: int, hs: List[Tuple[bytes, bytes]], end_stream: bool = True,
                padding: int = 0, split: int = 0, priority: Optional[Tuple[int, int, bool]] = None,
                end_headers: bool = True) -> None:
        block = self.enc.encode(hs)
        first = block if not split else block[:max(1, len(block) // (split + 1))]
        rest = block[len(first):]
        f = HeadersFrame(sid)
        f.data = first
        if end_stream:
            f.flags.add("END_STREAM")
        if padding:
            f.flags.add("PADDED")
            f.pad_length = padding
        if priority is not None:
            f.flags.add("PRIORITY")
            f.depends_on, f.stream_weight, f.exclusive = priority
        if not rest and end_headers:
            f.flags.add("END_HEADERS")
        self.add(f)
        while rest:
            step = max(1, len(block) // (split + 1))
            piece, rest = rest[:step], rest[step:]
            c = ContinuationFrame(sid)
            c.data = piece
            if not rest and end_headers:
                c.flags.add("END_HEADERS")
            self.add(c)

    def request(self, sid: int, path: bytes = b"/w", method: bytes = b"GET",
                body: Optional[bytes] = None, extra: Optional[List[Tuple[bytes, bytes]]] = None,
                **kw: Any) -> None:
        hs = [(b":method", method), (b":scheme", b"http"), (b":authority", b"example.com"),
              (b":path", path)] + (extra or [])
        self.headers(sid, hs, end_stream=body is None, **kw)
        if body is not None:
            self.data(sid, body, end_stream=True)

    def data(self, sid: int, payload: bytes, end_stream: bool = False, padding: int = 0) -> None:
        f = DataFrame(sid)
        f.data = payload
        if end_stream:
            f.flags.add("END_STREAM")
        if padding:
            f.flags.add("PADDED")
            f.pad_length = padding
        self.add(f)


def h2_session(seed: int) -> bytes:
    b = H2Builder()
    b.request(1, b"/a")
    b.request(3, b"/b", b"POST", make_body(seed % 50 + 1, seed))
    w = WindowUpdateFrame(0)
    w.window_increment = 1000
    b.add(w)
    b.request(5, b"/c")
    p = PingFrame(0)
    p.opaque_data = b"12345678"
    b.add(p)
    return bytes(b.out)


def ws_session(seed: int) -> bytes:
    hs = handshake_request(path="/ws", key=make_key(seed))
    frames = b"".join(message_frames("text", b"hello ws", [3])) + ping_frame(b"p") + \
        b"".join(message_frames("binary", make_body(seed % 30, seed), [])) + close_frame(1000)
    return hs + frames


def h2c_session(seed: int) -> bytes:
    """HTTP/1.1 request offering the h2c upgrade, then (as a client that got its 101 would) the
    HTTP/2 preface and two more requests."""
    b = H2Builder()
    b.request(3, b"/b", b"POST", make_body(seed % 20 + 1, seed))
    b.request(5, b"/c")
    return (b"GET /a HTTP/1.1\r\nHost: example.com\r\nConnection: Upgrade, HTTP2-Settings\r\n"
            b"Upgrade: h2c\r\nHTTP2-Settings: AAMAAABkAAQAAP__\r\nAccept: */*\r\n\r\n"
            + bytes(b.out))


SESSIONS = {"h1": h1_session, "h2": h2_session, "ws": ws_session, "h2c": h2c_session}

# --------------------------------------------------------------------------- generators


@st.composite
def bytes_case(draw: Any) -> Dict[str, Any]:
    style = draw(st.sampled_from(["random", "soup", "soup", "h2ish"]))
    if style == "random":
        data = draw(st.binary(min_size=0, max_size=300))
    elif style == "soup":
        toks = [b"GET", b"POST", b" ", b"/", b"HTTP/1.1", b"HTTP/1.0", b"HTTP/2.0", b"\r\n",
                b"\n", b"\r", b"Host:", b"Content-Length:", b"Transfer-Encoding:", b"chunked",
                b"Connection:", b"Upgrade:", b"h2c", b"websocket", b"close", b"keep-alive",
                b"0", b"5", b"-1", b"99999999999999999999", b":", b";", b",", b"\x00", b"\xff",
                b"PRI * HTTP/2.0\r\n\r\nSM\r\n\r\n", b"HTTP2-Settings:", b"AAMAAABkAAQAAP__",
                b"Expect:", b"100-continue", b"Sec-WebSocket-Key:", b"Sec-WebSocket-Version:",
                b"13", b"a" * 40, b"\t", b"%", b"%zz", b"?", b"#", b"*", b"CONNECT", b"OPTIONS"]
        data = b"".join(draw(st.lists(st.sampled_from(toks), max_size=40)))
    else:
        data = PREFACE + draw(st.binary(max_size=120))
    return {"kind": "bytes", "data": b2s(data), "seg": draw(segmentation()),
            "alpn": draw(st.sampled_from([None, None, "h2", "http/1.1"])),
            "sched": draw(st.integers(0, 999))}


@st.composite
def mutate_case(draw: Any) -> Dict[str, Any]:
    kind = draw(st.sampled_from(["h1", "h2", "ws", "h2c"]))
    muts = []
    for _ in range(draw(st.integers(1, 4))):
        m = draw(st.sampled_from(["flip", "set", "truncate", "dup", "splice", "insert", "delete"]))
        muts.append({"m": m, "pos": draw(st.integers(0, 100000)), "len": draw(st.integers(1, 30)),
                     "val": draw(st.integers(0, 255)), "bit": draw(st.integers(0, 7)),
                     "src": draw(st.integers(0, 100000))})
    return {"kind": "mutate", "session": kind, "seed": draw(st.integers(0, 50)), "muts": muts,
            "seg": draw(segmentation()), "sched": draw(st.integers(0, 999))}


def apply_mutations(data: bytes, muts: List[Dict[str, Any]]) -> bytes:
    b = bytearray(data)
    for m in muts:
        if not b:
            break
        pos = m["pos"] % len(b)
        if m["m"] == "flip":
            b[pos] ^= 1 << m["bit"]
        elif m["m"] == "set":
            b[pos] = m["val"]
        elif m["m"] == "truncate":
            del b[pos:]
        elif m["m"] == "dup":
            b[pos:pos] = b[pos:pos + m["len"]]
        elif m["m"] == "splice":
            src = m["src"] % len(b)
            b[pos:pos + m["len"]] = b[src:src + m["len"]]
        elif m["m"] == "insert":
            b[pos:pos] = bytes([m["val"]]) * (m["len"] % 5 + 1)
        else:
            del b[pos:pos + m["len"]]
    return bytes(b)


ODD_OPS = ["priority_before_headers", "rst_closed", "wu_closed", "continuation", "padded",
           "trailers", "zero_data", "data_after_response", "plain_connect", "nonascii_path",
           "unknown_frame", "settings_variants", "ping_flood", "headers_priority_self_later",
           "window_update_zero_stream_level", "big_header_value", "empty_path", "star_path",
           "lowercase_method", "te_trailers_body", "rst_then_data_inflight", "goaway_then_more",
           "late_data_flood"]


@st.composite
def grammar_case(draw: Any) -> Dict[str, Any]:
    return {"kind": "grammar", "ops": draw(st.lists(st.sampled_from(ODD_OPS), min_size=1,
                                                    max_size=3)),
            "witness_first": draw(st.booleans()), "seg": draw(segmentation()),
            "sched": draw(st.integers(0, 999)), "n": draw(st.integers(0, 255))}


def grammar_bytes(case: Dict[str, Any]) -> Tuple[bytes, List[int]]:
    data, witnesses, _ = grammar_build(case)
    return data, witnesses


def grammar_build(case: Dict[str, Any]) -> Tuple[bytes, List[int], List[int]]:
    """Two witness streams around the odd stream(s). Returns (bytes, witness stream ids, marks);
    the client pauses at each mark until the server has gone quiet."""
    b = H2Builder()
    marks: List[int] = []
    sid = 1
    witnesses = []
    if case["witness_first"]:
        b.request(sid, b"/w", b"POST", b"witness-one")
        witnesses.append(sid)
        sid += 2
    n = case["n"]
    for op in case["ops"]:
        odd = sid
        sid += 2
        if op == "priority_before_headers":
            p = PriorityFrame(odd)
            p.depends_on, p.stream_weight, p.exclusive = 0, n, bool(n & 1)
            b.add(p)
            b.request(odd, b"/o")
        elif op == "rst_closed":
            b.request(odd, b"/o")
            r = RstStreamFrame(odd)
            r.error_code = 8
            b.add(r)
            b.add(r)
        elif op == "wu_closed":
            b.request(odd, b"/o")
            r = RstStreamFrame(odd)
            b.add(r)
            w = WindowUpdateFrame(odd)
            w.window_increment = 100
            b.add(w)
        elif op == "continuation":
            b.request(odd, b"/o", extra=[(b"x-long", b"v" * (50 + n))], split=2 + n % 3)
        elif op == "padded":
            b.request(odd, b"/o", b"POST", None, padding=n % 50)
            b.data(odd, b"padded-body", end_stream=True, padding=n % 200)
        elif op == "trailers":
            hs = [(b":method", b"POST"), (b":scheme", b"http"), (b":authority", b"example.com"),
                  (b":path", b"/o")]
            b.headers(odd, hs, end_stream=False)
            b.data(odd, b"abc")
            b.headers(odd, [(b"x-trailer", b"1")], end_stream=True)
        elif op == "zero_data":
            b.request(odd, b"/o", b"POST", None)
            b.data(odd, b"")
            b.data(odd, b"", end_stream=True)
        elif op == "data_after_response":
            # the application answers as soon as the head arrives only if it does not wait for
            # the body: path /early is served by such an application
            hs = [(b":method", b"POST"), (b":scheme", b"http"), (b":authority", b"example.com"),
                  (b":path", b"/early")]
            b.headers(odd, hs, end_stream=False)
            b.mark = len(b.out)  # type: ignore
            b.data(odd, b"late-data")
            b.data(odd, b"more", end_stream=True)
        elif op == "plain_connect":
            b.headers(odd, [(b":method", b"CONNECT"), (b":authority", b"example.com:443")],
                      end_stream=False)
        elif op == "nonascii_path":
            b.request(odd, "/café".encode("utf-8") if n & 1 else b"/\xff\xfe")
        elif op == "unknown_frame":
            body = b"x" * (n % 20)
            b.out += len(body).to_bytes(3, "big") + bytes([0x20 + n % 8, 0]) + \
                (odd if n & 1 else 0).to_bytes(4, "big") + body
            b.request(odd, b"/o")
        elif op == "settings_variants":
            s = SettingsFrame(0)
            s.settings = {1: 0 if n & 1 else 4096, 3: n + 1, 4: 1 << 16, 5: 16384, 8: 1,
                          0x99: 5}
            b.add(s)
            b.request(odd, b"/o")
        elif op == "ping_flood":
            for i in range(10):
                p = PingFrame(0)
                p.opaque_data = bytes([i]) * 8
                b.add(p)
            b.request(odd, b"/o")
        elif op == "headers_priority_self_later":
            b.request(odd, b"/o", priority=(odd + 2, n % 256, bool(n & 2)))
        elif op == "window_update_zero_stream_level":
            b.request(odd, b"/o", b"POST", None)
            w = WindowUpdateFrame(odd)
            w.window_increment = 1
            b.add(w)
            b.data(odd, b"x", end_stream=True)
        elif op == "big_header_value":
            b.request(odd, b"/o", extra=[(b"x-big", b"b" * 20000)])
        elif op == "empty_path":
            b.request(odd, b"/?")
        elif op == "star_path":
            b.request(odd, b"*", b"OPTIONS")
        elif op == "lowercase_method":
            b.request(odd, b"/o", b"get")
        elif op == "te_trailers_body":
            b.request(odd, b"/o", b"POST", b"with-te", extra=[(b"te", b"trailers")])
        elif op == "rst_then_data_inflight":
            hs = [(b":method", b"POST"), (b":scheme", b"http"), (b":authority", b"example.com"),
                  (b":path", b"/o")]
            b.headers(odd, hs, end_stream=False)
            b.data(odd, b"part")
            r = RstStreamFrame(odd)
            r.error_code = 8
            b.add(r)
        elif op == "goaway_then_more":
            b.request(odd, b"/o")
        elif op == "late_data_flood":
            # uploads to two streams that were answered without being read: more than one
            # connection window in total, each within its stream window, the second only after
            # the server had the time to return the credit for the first
            other = sid
            sid += 2
            for x in (odd, other):
                b.headers(x, [(b":method", b"POST"), (b":scheme", b"http"),
                              (b":authority", b"example.com"), (b":path", b"/early")],
                          end_stream=False)
            for x in (odd, other):
                marks.append(len(b.out))
                for i in range(3):
                    b.data(x, bytes([65 + i]) * 16000, end_stream=i == 2)
            marks.append(len(b.out))
    b.request(sid, b"/w", b"POST", b"witness-two")
    witnesses.append(sid)
    return bytes(b.out), witnesses, marks


H1_MALFORMED = {
    "bad_version": b"GET / HTTP/1.1x\r\nHost: x\r\n\r\n",
    "no_colon": b"GET / HTTP/1.1\r\nHost x\r\n\r\n",
    "bad_method": b"G(T / HTTP/1.1\r\nHost: x\r\n\r\n",
    "space_in_target": b"GET /a b HTTP/1.1\r\nHost: x\r\n\r\n",
    "bad_chunk_size": b"POST / HTTP/1.1\r\nHost: x\r\nTransfer-Encoding: chunked\r\n\r\nzz\r\nab\r\n",
    "chunk_no_crlf": b"POST / HTTP/1.1\r\nHost: x\r\nTransfer-Encoding: chunked\r\n\r\n2\r\nabXX0\r\n\r\n",
    "conflicting_cl": b"POST / HTTP/1.1\r\nHost: x\r\nContent-Length: 3\r\nContent-Length: 4\r\n\r\nabcd",
    "negative_cl": b"POST / HTTP/1.1\r\nHost: x\r\nContent-Length: -1\r\n\r\n",
    "no_host_11": b"GET / HTTP/1.1\r\nAccept: */*\r\n\r\n",
    "two_hosts": b"GET / HTTP/1.1\r\nHost: a\r\nHost: b\r\n\r\n",
    "nul_in_header": b"GET / HTTP/1.1\r\nHost: x\r\nX: a\x00b\r\n\r\n",
    "oversized_head": b"GET / HTTP/1.1\r\nHost: x\r\nX-Big: " + b"a" * 70000 + b"\r\n\r\n",
    "lf_only_garbage": b"\x16\x03\x01\x02\x00\x01\x00\x01\xfc\x03\x03" + b"\x00" * 30,
}

H2_VIOLATIONS = ["data_idle_stream", "even_stream", "oversized_frame", "window_overflow",
                 "headers_stream_zero", "bad_settings_len", "continuation_without_headers",
                 "bad_hpack", "settings_ack_with_payload",
                 "push_promise_from_client", "uppercase_header_name", "missing_method"]


def h2_violation_bytes(which: str) -> bytes:
    b = H2Builder()
    b.request(1, b"/w", b"POST", b"witness-one")
    if which == "data_idle_stream":
        b.data(5, b"x")
    elif which == "even_stream":
        b.request(4, b"/o")
    elif which == "oversized_frame":
        f = DataFrame(3)
        f.data = b"x" * 20000
        b.request(3, b"/o", b"POST", None)
        b.add(f)
    elif which == "window_overflow":
        w = WindowUpdateFrame(0)
        w.window_increment = 2**31 - 1
        b.add(w)
    elif which == "headers_stream_zero":
        raw = HeadersFrame(1)
        raw.data = b.enc.encode([(b":method", b"GET"), (b":scheme", b"http"),
                                 (b":authority", b"x"), (b":path", b"/")])
        raw.flags.add("END_HEADERS")
        raw.flags.add("END_STREAM")
        ser = bytearray(raw.serialize())
        ser[5:9] = b"\x00\x00\x00\x00"
        b.out += ser
    elif which == "bad_settings_len":
        b.out += b"\x00\x00\x05\x04\x00\x00\x00\x00\x00" + b"\x00\x03\x00\x00\x00"
    elif which == "continuation_without_headers":
        c = ContinuationFrame(3)
        c.data = b"\x82"
        c.flags.add("END_HEADERS")
        b.add(c)
    elif which == "bad_hpack":
        f = HeadersFrame(3)
        f.data = b"\xff\xff\xff\xff\xff"
        f.flags.add("END_HEADERS")
        f.flags.add("END_STREAM")
        b.add(f)
    elif which == "rst_idle_stream":
        r = RstStreamFrame(9)
        b.add(r)
    elif which == "settings_ack_with_payload":
        b.out += b"\x00\x00\x06\x04\x01\x00\x00\x00\x00" + b"\x00\x03\x00\x00\x00\x64"
    elif which == "push_promise_from_client":
        b.out += b"\x00\x00\x05\x05\x04\x00\x00\x00\x01" + b"\x00\x00\x00\x02\x82"
    elif which == "uppercase_header_name":
        b.request(3, b"/o", extra=[(b"X-Upper", b"1")])
    elif which == "missing_method":
        b.headers(3, [(b":scheme", b"http"), (b":authority", b"x"), (b":path", b"/")])
    return bytes(b.out)


# --------------------------------------------------------------------------- WebSocket frames

WS_LIMIT = 64  # websocket_max_message_size for the frame grammar: the limit is within reach
WS_OPS = ["text", "binary", "text_frag", "binary_frag", "over_text", "over_binary",
          "over_text_frag", "over_binary_frag", "ping", "pong", "big_ping", "frag_ping",
          "cont_alone", "reserved_opcode", "bad_utf8", "split_utf8", "unmasked", "rsv_bits",
          "close_1000", "close_bad_code", "close_short", "close_long_reason", "huge_length",
          "text_inside_frag", "empty_text", "empty_binary"]


def ws_frames(op: str, n: int) -> bytes:
    from wire.ws import encode_frame

    small = bytes(65 + (n + i) % 26 for i in range(1 + n % 20))
    over = bytes(97 + (n + i) % 26 for i in range(WS_LIMIT + 1 + n % 40))
    if op == "text":
        return encode_frame(1, small)
    if op == "binary":
        return encode_frame(2, small)
    if op == "text_frag":
        return encode_frame(1, small[:1], fin=False) + encode_frame(0, small[1:])
    if op == "binary_frag":
        return encode_frame(2, small[:1], fin=False) + encode_frame(0, small[1:])
    if op == "over_text":
        return encode_frame(1, over)
    if op == "over_binary":
        return encode_frame(2, over)
    if op in ("over_text_frag", "over_binary_frag"):
        code = 1 if op == "over_text_frag" else 2
        k = 1 + n % WS_LIMIT
        return encode_frame(code, over[:k], fin=False) + encode_frame(0, over[k:2 * k], fin=False) \
            + encode_frame(0, over[2 * k:])
    if op == "ping":
        return encode_frame(9, small[:10])
    if op == "pong":
        return encode_frame(10, small[:10])
    if op == "big_ping":
        return encode_frame(9, b"p" * 126)  # control frames are limited to 125 bytes
    if op == "frag_ping":
        return encode_frame(9, b"pp", fin=False)
    if op == "cont_alone":
        return encode_frame(0, small)
    if op == "reserved_opcode":
        return encode_frame(3 + n % 5, small)
    if op == "bad_utf8":
        return encode_frame(1, b"ok\xff\xfe")
    if op == "split_utf8":
        e = "h\u00e9llo \u20ac".encode("utf-8")
        k = 2 + n % (len(e) - 2)
        return encode_frame(1, e[:k], fin=False) + encode_frame(0, e[k:])
    if op == "unmasked":
        return encode_frame(1, small, mask=None)
    if op == "rsv_bits":
        return encode_frame(1, small, rsv1=True)  # no extension was negotiated
    if op == "close_1000":
        return encode_frame(8, b"\x03\xe8bye")
    if op == "close_bad_code":
        return encode_frame(8, (1005 if n & 1 else 999).to_bytes(2, "big"))
    if op == "close_short":
        return encode_frame(8, b"\x03")
    if op == "close_long_reason":
        return encode_frame(8, b"\x03\xe8" + b"r" * 124)
    if op == "huge_length":
        return bytes([0x82, 0xFF]) + (1 << 62).to_bytes(8, "big") + b"\x00\x00\x00\x00abcd"
    if op == "text_inside_frag":
        return encode_frame(1, small[:1], fin=False) + encode_frame(2, small)
    if op == "empty_text":
        return encode_frame(1, b"")
    return encode_frame(2, b"")


@st.composite
def ws_grammar_case(draw: Any) -> Dict[str, Any]:
    return {"kind": "ws_grammar", "carrier": draw(st.sampled_from(["h1", "h1", "h2"])),
            "ops": draw(st.lists(st.sampled_from(WS_OPS), min_size=1, max_size=5)),
            "n": draw(st.integers(0, 255)), "seg": draw(segmentation()),
            "together": draw(st.booleans()), "sched": draw(st.integers(0, 999))}


async def ws_scenario(env: Any, case: Dict[str, Any]) -> Any:
    """An accepted WebSocket (echo application, message limit WS_LIMIT), then the generated
    frames: all in one write or one op at a time; afterwards the client goes away."""
    from gen.wsdrive import WSSession

    ws = WSSession(env, case["carrier"], seg=case["seg"], direct=True)
    status = await ws.open(path="/ws")
    frames = [ws_frames(op, case["n"] + i) for i, op in enumerate(case["ops"])]
    if status == 101 or (case["carrier"] == "h2" and status == 200):
        for chunk in ([b"".join(frames)] if case["together"] else frames):
            if ws.conn.server_gone:
                break
            try:
                await ws.send(chunk, seg=case["seg"])
            except Exception:
                break  # the h2 client refuses to write to a stream the server has reset
            await env.settle(5.0)
    await env.settle(30.0)
    conn = ws.conn
    if not conn.server_gone:
        conn.eof()
    await env.settle(30.0)
    if not conn.server_gone:
        conn.reset()
        await env.settle(30.0)
    conn.ws_session = ws
    conn.ws_status = status
    return conn


# --------------------------------------------------------------------------- running / judging

PROGRAMS = {"*": [["universal"]],
            "/early": [["respond", 200, [["content-length", "5"]], ["early"]]],
            # WebSocket requests the application denies while its coroutine lives on
            "/deny": [["recv"], ["send", {"type": "websocket.close"}, "tolerate"],
                      ["sleep", 50.0]],
            "/deny_http": [["recv"],
                           ["send", {"type": "websocket.http.response.start", "status": 401,
                                     "headers": [["content-length", "2"]]}, "tolerate"],
                           ["send", {"type": "websocket.http.response.body", "body": "no"},
                            "tolerate"], ["sleep", 50.0]]}

# ---- "odd" inputs: octets and volumes that real peers (or hostile ones) can put into fields
# the grammars above keep well-formed.  Only the generic part of the oracle applies: no
# internal error, no broken application, the handler ends, the output is well-formed.
HIGH = [b"\xe9", b"\xff\xfe", b"caf\xc3\xa9", b"\x80"]
ODD_WHAT = ["h2_method", "h2_scheme", "h2_authority", "h2_value", "h2_path", "h2_priority_flood",
            "ws_connection", "ws_extensions", "ws_protocol", "ws_key", "ws_version", "ws_origin",
            "ws_denied_then_data", "ws_denied_http_then_data", "h1_method", "h1_query",
            "h1_host", "h1_value", "h1_upgrade",
            # the WebSocket handshake fields over HTTP/2 (extended CONNECT), odd :protocol values,
            # other request-target forms
            "ws2_extensions", "ws2_protocol", "ws2_version", "ws2_origin", "ws2_colon_protocol",
            "ws2_denied_then_data", "h2_empty_path", "h2_relative_path", "h1_connect",
            "h1_absolute", "h1_asterisk"]


@st.composite
def odd_case(draw: Any) -> Dict[str, Any]:
    return {"kind": "odd", "what": draw(st.sampled_from(ODD_WHAT)),
            "octets": draw(st.integers(0, len(HIGH) - 1)), "n": draw(st.integers(0, 255)),
            "seg": draw(segmentation()), "sched": draw(st.integers(0, 999))}


def odd_bytes(case: Dict[str, Any]) -> bytes:
    what, hi, n = case["what"], HIGH[case["octets"]], case["n"]
    if what.startswith("ws2_"):
        b = H2Builder()
        b.request(1, b"/w", b"POST", b"witness-one")
        path = b"/deny" if what == "ws2_denied_then_data" else b"/ws"
        hs = [(b":method", b"CONNECT"), (b":protocol", b"websocket"), (b":scheme", b"http"),
              (b":authority", b"example.com"), (b":path", path),
              (b"sec-websocket-version", b"13")]
        if what == "ws2_extensions":
            hs.append((b"sec-websocket-extensions", b"permessage-deflate; x=" + hi))
        elif what == "ws2_protocol":
            hs.append((b"sec-websocket-protocol", b"chat, caf" + hi))
        elif what == "ws2_version":
            hs[5] = (b"sec-websocket-version", b"13" + hi)
        elif what == "ws2_origin":
            hs.append((b"origin", b"http://caf" + hi + b".example"))
        elif what == "ws2_colon_protocol":
            hs[1] = (b":protocol", [b"", b"webs" + hi, b"WebSocket", b"h2c"][n % 4])
        b.headers(3, hs, end_stream=False)
        b.data(3, b"".join(message_frames("text", b"carried on", [])) + close_frame(1000))
        b.request(5, b"/w", b"POST", b"witness-two")
        return bytes(b.out)
    if what.startswith("h2_"):
        b = H2Builder()
        b.request(1, b"/w", b"POST", b"witness-one")
        hs = {b":method": b"GET", b":scheme": b"http", b":authority": b"example.com",
              b":path": b"/o"}
        extra = []
        if what == "h2_method":
            hs[b":method"] = b"G" + hi + b"T"
        elif what == "h2_scheme":
            hs[b":scheme"] = b"htt" + hi
        elif what == "h2_authority":
            hs[b":authority"] = b"caf" + hi + b".example"
        elif what == "h2_path":
            hs[b":path"] = b"/o" + hi + b"?q=" + hi
        elif what == "h2_empty_path":
            hs[b":path"] = b""
        elif what == "h2_relative_path":
            hs[b":path"] = [b"o", b"?q=1", b"//o", b"http://example.com/o"][n % 4]
        elif what == "h2_value":
            extra = [(b"x-odd", b"v" + hi), (b"cookie", hi), (b"user-agent", hi * 3)]
        if what == "h2_priority_flood":
            for i in range(1001 + n):
                f = PriorityFrame(1001 + 2 * i)
                f.depends_on, f.stream_weight, f.exclusive = 0, 1 + i % 250, False
                b.add(f)
        else:
            b.headers(3, list(hs.items()) + extra, end_stream=True)
        b.request(5, b"/w", b"POST", b"witness-two")
        return bytes(b.out)
    if what.startswith("ws_"):
        path = {"ws_denied_then_data": b"/deny", "ws_denied_http_then_data": b"/deny_http"}.get(
            what, b"/ws")
        h = {b"Host": b"example.com", b"Upgrade": b"websocket", b"Connection": b"Upgrade",
             b"Sec-WebSocket-Key": make_key(1), b"Sec-WebSocket-Version": b"13"}
        if what == "ws_connection":
            h[b"Connection"] = b"Upgrade, caf" + hi
        elif what == "ws_extensions":
            h[b"Sec-WebSocket-Extensions"] = b"permessage-deflate; x=" + hi
        elif what == "ws_protocol":
            h[b"Sec-WebSocket-Protocol"] = b"chat, caf" + hi
        elif what == "ws_key":
            h[b"Sec-WebSocket-Key"] = b"dGhl" + hi + b"=="
        elif what == "ws_version":
            h[b"Sec-WebSocket-Version"] = b"13" + hi
        elif what == "ws_origin":
            h[b"Origin"] = b"http://caf" + hi + b".example"
        head = b"GET " + path + b" HTTP/1.1\r\n" + b"".join(
            k + b": " + v + b"\r\n" for k, v in h.items()) + b"\r\n"
        return head
    req = {"h1_method": b"G" + hi + b"T / HTTP/1.1\r\nHost: x\r\n\r\n",
           "h1_query": b"GET /o?q=" + hi + b" HTTP/1.1\r\nHost: x\r\n\r\n",
           "h1_host": b"GET /o HTTP/1.1\r\nHost: caf" + hi + b".example\r\n\r\n",
           "h1_value": b"GET /o HTTP/1.1\r\nHost: x\r\nUser-Agent: " + hi + b"\r\nCookie: "
                       + hi + b"\r\n\r\n",
           "h1_connect": b"CONNECT example.com:443 HTTP/1.1\r\nHost: example.com:443\r\n\r\n",
           "h1_absolute": b"GET http://example.com/o?q=1 HTTP/1.1\r\nHost: example.com\r\n\r\n",
           "h1_asterisk": b"OPTIONS * HTTP/1.1\r\nHost: x\r\n\r\n",
           "h1_upgrade": b"GET /o HTTP/1.1\r\nHost: x\r\nConnection: Upgrade, HTTP2-Settings"
                         b"\r\nUpgrade: h2c" + hi + b"\r\nHTTP2-Settings: " + hi + b"\r\n\r\n"}
    return req[what] + b"GET /w HTTP/1.1\r\nHost: x\r\n\r\n"


def case_bytes(case: Dict[str, Any]) -> Tuple[bytes, Optional[str], bool]:
    kind = case["kind"]
    if kind == "bytes":
        return s2b(case["data"]), case.get("alpn"), case.get("alpn") is not None
    if kind == "mutate":
        data = apply_mutations(SESSIONS[case["session"]](case["seed"]), case["muts"])
        return data, None, False
    if kind == "grammar":
        return grammar_bytes(case)[0], None, False
    if kind == "h1_malformed":
        return H1_MALFORMED[case["which"]], None, False
    if kind == "odd":
        return odd_bytes(case), None, False
    return h2_violation_bytes(case["which"]), None, False


async def scenario(env: Any, case: Dict[str, Any]) -> Any:
    data, alpn, tls = case_bytes(case)
    conn = env.connect(alpn=alpn, tls=tls)
    await env.settle0()
    marks = grammar_build(case)[2] if case["kind"] == "grammar" else []
    pos = 0
    for m in marks + [len(data)]:
        if m > pos:
            await deliver(env, conn, data[pos:m],
                          case.get("seg") or {"mode": "one", "between": "settle"})
            await env.settle(5.0)
            pos = m
    await env.settle(30.0)
    if case["kind"] == "odd" and case["what"].startswith("ws_") and not conn.server_gone:
        # whatever the answer was, the client carries on as if the WebSocket were open
        conn.send(b"".join(message_frames("text", b"after the answer", [])) + close_frame(1000))
        await env.settle(30.0)
    conn.eof()
    await env.settle(30.0)
    if not conn.server_gone:
        conn.reset()
        await env.settle(30.0)
    return conn


def innermost_hypercorn_frame(exc: BaseException) -> str:
    import traceback

    best = "?"
    stack = [exc]
    while stack:
        e = stack.pop()
        if isinstance(e, BaseExceptionGroup):
            stack.extend(e.exceptions)
            continue
        for fs in traceback.extract_tb(e.__traceback__):
            if "/hypercorn/" in fs.filename:
                best = f"{os.path.basename(fs.filename)}:{fs.name}:{type(e).__name__}"
    return best


def judge(case: Dict[str, Any], obs: Any) -> Dict[str, Any]:
    be = obs.backend
    tag = {"backend": be, "kind_of_input": case["kind"]}
    conn = obs.value
    if obs.spin:
        raise Violation("spin", obs.spin, **tag)
    if conn.handler_exc is not None:
        raise Violation("internal_error", f"{conn.handler_exc!r}", **tag,
                        where=innermost_hypercorn_frame(conn.handler_exc))
    if obs.env.loop_errors:
        raise Violation("loop_error", f"{obs.env.loop_errors[:2]}", **tag)
    if find_queue_deadlock(obs):
        raise Violation("app_queue_deadlock", find_queue_deadlock(obs), **tag)
    if conn.handler_done_at is None:
        raise Violation("handler_never_terminates", f"alive at the end: {obs.alive}", **tag)
    for inst in obs.instances:
        if case.get("what") == "h1_connect":
            break  # the echo application's 200 + content-length is itself illegal for CONNECT
        if inst.exit and inst.exit.startswith("raise") and "Cancel" not in inst.exit:
            raise Violation("application_broken_by_input", f"universal application raised: "
                            f"{inst.exit} for scope {inst.scope.get('type')} "
                            f"{inst.scope.get('path')!r}", **tag)
    data = conn.received()
    kind = case["kind"]
    consumed = bool(obs.instances) or bool(data)
    if kind == "odd":
        return {"consumed": True}
    if kind == "ws_grammar":
        ws = conn.ws_session
        if conn.ws_status not in (101, 200):
            raise Violation("harness", f"handshake not accepted: {conn.ws_status}")
        raw = ws.server_bytes()
        frames, used, ferr = parse_server_frames(raw)
        if ferr:
            raise Violation("malformed_frames", ferr, **tag)
        return {"consumed": True}
    if kind == "h1_malformed":
        resps, leftover, err = parse_responses(data, ["GET"] * 3, conn.server_gone)
        if err:
            raise Violation("malformed_response", err, **tag)
        if case["which"] == "lf_only_garbage" and not resps:
            if not conn.server_gone:
                raise Violation("not_closed_after_garbage", "", **tag)
            return {"consumed": consumed}
        if not resps or not (400 <= resps[0].status < 500 or resps[0].status == 501):
            raise Violation("malformed_not_4xx", f"{case['which']}: "
                            f"{[r.status for r in resps]}", **tag, which=case["which"])
        if not conn.server_gone or conn.server_eof_at > 0.0 + 1e-9 and False:
            raise Violation("not_closed_after_4xx", case["which"], **tag)
        if obs.instances and case["which"] not in ("bad_chunk_size", "chunk_no_crlf",
                                                   "conflicting_cl"):
            raise Violation("malformed_request_reached_app", case["which"], **tag)
        return {"consumed": True}
    looks_h1 = data[:5] == b"HTTP/"
    if kind in ("grammar", "h2_violation") or (kind == "mutate" and case["session"] == "h2"
                                               and not looks_h1 and data):
        acct = FrameAccounting().decode(data, max_frame=1 << 24)
        if acct.error or acct.leftover:
            raise Violation("malformed_frames", f"{acct.error} leftover={acct.leftover}", **tag)
        if kind == "h2_violation":
            if acct.goaway is None:
                raise Violation("violation_without_goaway", case["which"], **tag,
                                which=case["which"])
            return {"consumed": True}
        if kind == "grammar":
            _, witnesses = grammar_bytes(case)
            for w in witnesses:
                s = acct.streams.get(w)
                body = b"witness-one" if w == witnesses[0] and case["witness_first"] \
                    else b"witness-two"
                want = b"/w|" + body
                if s is None or bytes(s.data) != want or s.end_stream != 1 or s.rst is not None:
                    raise Violation(
                        "witness_stream_harmed",
                        f"ops {case['ops']}: witness stream {w} got "
                        f"{s and (bytes(s.data)[:40], s.end_stream, s.rst)}; goaway={acct.goaway}",
                        **tag, ops="+".join(sorted(set(case["ops"]))))
            if acct.goaway is not None and acct.goaway[1] != 0:
                raise Violation("connection_error_for_legal_input", f"ops {case['ops']}: GOAWAY "
                                f"{acct.goaway}", **tag, ops="+".join(sorted(set(case["ops"]))))
        return {"consumed": consumed}
    # HTTP/1-looking output (plain bytes, mutated h1 / ws sessions)
    if data[:5] in (b"HTTP/",) or not data:
        resps, leftover, err = parse_responses(data, ["GET"] * 8, conn.server_gone)
        if err:
            raise Violation("malformed_response", err, **tag)
        for r in resps:
            if r.status == 101 and leftover:
                up = [v.lower() for v in r.header(b"upgrade")]
                if up == [b"websocket"]:
                    frames, _, ferr = parse_server_frames(leftover)
                    if ferr:
                        raise Violation("malformed_frames", ferr, **tag)
                elif up == [b"h2c"]:
                    acct = FrameAccounting().decode(leftover, max_frame=1 << 24)
                    if acct.error:
                        raise Violation("malformed_frames", acct.error, **tag)
    else:
        acct = FrameAccounting().decode(data, max_frame=1 << 24)
        if acct.error:
            raise Violation("malformed_output", f"neither HTTP/1 nor HTTP/2: {data[:40]!r} "
                            f"({acct.error})", **tag)
    return {"consumed": consumed}


def run_campaign(case: Dict[str, Any]) -> CaseInfo:
    """One coverage-guided libFuzzer campaign (atheris) over the byte-level target; any finding
    it records is re-judged here through the ordinary replay path."""
    import json
    import shutil
    import subprocess
    import sys
    import tempfile

    from vlib.core import Inconclusive, REPO, VERIF

    work = VERIF / ".work"
    work.mkdir(exist_ok=True)
    d = tempfile.mkdtemp(prefix="c04fuzz-", dir=work)
    try:
        corpus = os.path.join(d, "corpus")
        out = os.path.join(d, "out")
        os.makedirs(corpus)
        os.makedirs(out)
        if case["corpus"] == "seeded":
            for i, (name, fn) in enumerate(sorted(SESSIONS.items())):
                with open(os.path.join(corpus, f"seed-{name}"), "wb") as f:
                    f.write(bytes([0, 0, 0]) + fn(i))
        env = dict(os.environ, C04_FUZZ_OUT=out, VERIF_REPO=str(REPO),
                   PYTHONPATH=str(VERIF / ".deps"))
        cmd = [sys.executable, str(VERIF / "fuzz" / "c04_target.py"), f"-runs={case['runs']}",
               f"-seed={case['seed']}", "-max_len=1200", "-print_final_stats=1", corpus]
        try:
            r = subprocess.run(cmd, env=env, capture_output=True, text=True,
                               timeout=case.get("timeout", 7000))
        except subprocess.TimeoutExpired:
            raise Inconclusive("fuzz campaign exceeded its wall-clock allowance")
        if "Done" not in r.stderr and "Done" not in r.stdout:
            if "ModuleNotFoundError" in r.stderr and "atheris" in r.stderr:
                raise Inconclusive("atheris is not installed (setup.sh could not install it)")
            from sim.common import SimError

            raise SimError("fuzz target failed: " + (r.stderr or r.stdout)[-1500:])
        execs = case["runs"]
        for line in (r.stderr + r.stdout).splitlines():
            if line.startswith("stat::number_of_executed_units:"):
                execs = int(line.split(":")[-1])
        for name in sorted(os.listdir(out)):
            with open(os.path.join(out, name)) as f:
                found = json.load(f)
            try:
                run_case(found["case"])
            except Violation as v:
                v.replay_case = found["case"]  # type: ignore
                v.replay_part = "bytes"  # type: ignore
                raise
        return CaseInfo(True, [f"corpus={case['corpus']}", f"atheris_execs~{execs // 1000}k"],
                        evals=execs)
    finally:
        shutil.rmtree(d, ignore_errors=True)


def enumerate_campaigns(tier: str) -> Any:
    if tier != "thorough":
        return
    for i in range(16):
        yield {"kind": "campaign", "seed": 1000 + i, "runs": 150000,
               "corpus": "empty" if i % 2 else "seeded"}


def run_case(case: Dict[str, Any]) -> CaseInfo:
    if case.get("kind") == "campaign":
        return run_campaign(case)
    cfg = {"keep_alive_timeout": T_BIG}
    info = {"consumed": False}
    if case["kind"] == "ws_grammar":
        cfg["websocket_max_message_size"] = WS_LIMIT

    async def sc(env: Any) -> Any:
        if case["kind"] == "ws_grammar":
            return await ws_scenario(env, case)
        return await scenario(env, case)

    for be in BACKENDS:
        obs = run_sim(be, cfg, PROGRAMS, sc, sched=case.get("sched", 0))
        info = judge(case, obs)
    classes = ["input=" + case["kind"]]
    if case["kind"] == "mutate":
        classes.append("session=" + case["session"])
    if case["kind"] == "grammar":
        classes += ["op=" + o for o in case["ops"]]
    if case["kind"] == "ws_grammar":
        classes += ["carrier=" + case["carrier"]] + ["wsop=" + o for o in case["ops"]]
    if case["kind"] == "odd":
        classes.append("odd=" + case["what"])
    return CaseInfo(bool(info["consumed"]), classes, evals=2)


def enumerate_crafted(tier: str) -> Any:
    segs = [{"mode": "one", "between": "settle"}, {"mode": "bytes", "between": "none"},
            {"mode": "blocks", "block": 7, "between": "settle"}]
    for which in H1_MALFORMED:
        for seg in segs:
            yield {"kind": "h1_malformed", "which": which, "seg": seg, "sched": 0}
    for which in H2_VIOLATIONS:
        for seg in segs:
            yield {"kind": "h2_violation", "which": which, "seg": seg, "sched": 0}
    for op in ODD_OPS:
        for wf in (False, True):
            for seg in segs[:2]:
                yield {"kind": "grammar", "ops": [op], "witness_first": wf, "seg": seg,
                       "sched": 0, "n": 3}


def parts() -> List[Part]:
    return [
        Part("crafted", run_case, enumerate=enumerate_crafted,
             rule="every crafted malformed HTTP/1 class, HTTP/2 violation and single rare-frame "
                  "op under 3 segmentations"),
        Part("bytes", run_case, strategy=bytes_case, quick=1200, thorough=80000,
             rule="random bytes / protocol token soup / preface + random frames"),
        Part("mutate", run_case, strategy=mutate_case, quick=1500, thorough=100000,
             rule="1..4 mutations of valid HTTP/1, HTTP/2 and WebSocket sessions"),
        Part("atheris", run_case, enumerate=enumerate_campaigns,
             rule="thorough tier only: 16 libFuzzer campaigns (atheris, coverage of hypercorn, "
                  "h11, h2, hpack, hyperframe, wsproto, priority) of 150k executions each over "
                  "the byte-level target, half from an empty corpus, half seeded with valid "
                  "sessions; findings are bucketed by root cause and re-judged as 'bytes' cases"),
        Part("grammar", run_case, strategy=grammar_case, quick=900, thorough=60000,
             rule="1..3 legal-but-rare HTTP/2 ops between two witness streams"),
        Part("odd", run_case, strategy=odd_case, quick=400, thorough=20000,
             rule="non-ASCII octets in every request field the other grammars keep well-formed "
                  "(HTTP/2 pseudo-headers and values, HTTP/1 method/query/host/values, WebSocket "
                  "handshake fields), a PRIORITY flood, data sent on after a denied handshake"),
        Part("ws_grammar", run_case, strategy=ws_grammar_case, quick=800, thorough=50000,
             rule="1..5 legal, over-limit and illegal WebSocket frame ops on an accepted echo "
                  "WebSocket (message limit 64 bytes) over HTTP/1 and HTTP/2"),
    ]
