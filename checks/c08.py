"""C08 - send back-pressure is applied, bounded, and always released."""
from __future__ import annotations

from typing import Any, Dict, List, Optional

from hypothesis import strategies as st

from gen.http import make_body
from gen.wsdrive import WSSession
from sim.run import BACKENDS, run_sim
from vlib.core import CaseInfo, Part, Violation
from wire.h1 import b2s, parse_responses
from wire.h2c import H2Client
from wire.ws import assemble_messages, parse_server_frames

PROPERTY = "C08"
LEVEL = "fault_enumeration"
RULE = (
    "application writes of generated sizes (1 B..256 KiB, totals up to ~2 MiB) x a client that "
    "stops accepting (HTTP/1: stops reading with a kernel buffer of 0..256 KiB; HTTP/2 and "
    "WebSocket-over-HTTP/2: initial stream window 0/1/1000/65535 and no credit) x one release "
    "event (resume / WINDOW_UPDATE, RST_STREAM, client EOF, reset, write error, keep-alive "
    "close of a sibling) injected while a send is observed pending; oracle = bound on held "
    "bytes independent of response size (checked on the 1x and 4x response), witnesses (second "
    "connection, sibling stream) complete while stalled, nothing blocked at quiescence after "
    "the event; non-trivial = at least one send was pending when the event was injected"
)
ASSUMPTIONS = [
    "in-memory transport models asyncio's 64 KiB high-water / trio's blocking send_all",
    "held bytes = bytes of returned application sends - bytes accepted by the peer",
]
T_BIG = 100000.0
BOUND_BASE = 256 * 1024


@st.composite
def chunk_sizes(draw: Any) -> List[int]:
    n = draw(st.integers(2, 12))
    style = draw(st.sampled_from(["small", "mixed", "big", "frame_multiple", "medium"]))
    out = []
    for _ in range(n):
        if style == "small":
            out.append(draw(st.integers(1, 3000)))
        elif style == "big":
            out.append(draw(st.sampled_from([65536, 100000, 200000, 262144])))
        elif style == "medium":  # many writes, each below every buffer threshold
            out.append(draw(st.sampled_from([10000, 20000, 30000])))
        elif style == "frame_multiple":
            out.append(draw(st.sampled_from([4096, 8192, 16384, 32768])))
        else:
            out.append(draw(st.sampled_from([1, 100, 5000, 16384, 40000, 70000, 150000])))
    return out


@st.composite
def case_strategy(draw: Any, proto: str) -> Dict[str, Any]:
    case: Dict[str, Any] = {
        "proto": proto, "sched": draw(st.integers(0, 999)),
        "chunks": draw(chunk_sizes()),
        "declare_cl": draw(st.booleans()),
    }
    if proto == "h1":
        case["kernel"] = draw(st.sampled_from([0, 0, 1000, 65536, 262144]))
        # known finding C08-2: a client that half-closes (EOF) but never reads again leaves the
        # waiting send blocked for ever; that event is excluded by construction (the committed
        # replay keeps reporting it) - "reset" covers the client that really went away
        case["event"] = draw(st.sampled_from(["resume", "resume", "dribble", "reset", "reset",
                                              "write_error"]))
    else:
        case["window"] = draw(st.sampled_from([0, 1, 1000, 65535, -1]))
        case["event"] = draw(st.sampled_from(["window_update", "window_update", "conn_eof",
                                              "rst_stream", "reset", "settings_window"]))
        if case["window"] == -1:
            # stream windows are huge; the 65535 byte *connection* window is what runs out and
            # only connection-level WINDOW_UPDATEs (stream 0) relieve it
            case["event"] = draw(st.sampled_from(["conn_window_update", "conn_window_update",
                                                  "rst_stream", "conn_eof"]))
        case["sibling"] = draw(st.booleans())
        if draw(st.integers(0, 3)) == 0:
            # flow control never limits (huge windows): the transport itself stops accepting, as
            # under HTTP/1; full-size frames drain the stream buffer once the peer reads again
            case["window"] = -2
            case["kernel"] = draw(st.sampled_from([0, 1000, 65536, 262144]))
            case["event"] = draw(st.sampled_from(["resume", "resume", "dribble", "reset"]))
            case["sibling"] = False
        if proto == "h2" and draw(st.integers(0, 5)) == 0:
            # the request is the one over keep_alive_max_requests: the server announces GOAWAY
            # on receiving it, after which its HTTP/2 state machine refuses every send - the
            # application's sends must return all the same (what becomes of the response is
            # finding C18-2, judged by C18)
            case["over_limit"] = True
            case["sibling"] = False
            # (huge windows: with an exhausted window a send may rightly wait for credit)
            case["window"] = -2
            case["event"] = "resume"
    return case


def total(case: Dict[str, Any], mult: int) -> int:
    return sum(case["chunks"]) * mult


def app_program(case: Dict[str, Any], mult: int, ws: bool) -> list:
    chunks = case["chunks"] * mult
    if ws:
        prog: list = [["recv"], ["send", {"type": "websocket.accept"}]]
        for i, n in enumerate(chunks):
            prog.append(["send", {"type": "websocket.send", "bytes": b2s(make_body(n, i))},
                         "tolerate"])
        prog.append(["send", {"type": "websocket.close", "code": 1000}, "tolerate"])
        prog.append(["ws_loop"])
        return prog
    headers = [["content-length", str(sum(chunks))]] if case["declare_cl"] else []
    prog = [["recv_all"], ["send", {"type": "http.response.start", "status": 200,
                                    "headers": headers}, "tolerate"]]
    for i, n in enumerate(chunks):
        prog.append(["send", {"type": "http.response.body", "body": b2s(make_body(n, i)),
                              "more_body": True}, "tolerate"])
    prog.append(["send", {"type": "http.response.body", "body": "", "more_body": False},
                 "tolerate"])
    return prog


def body_of(case: Dict[str, Any], mult: int) -> bytes:
    return b"".join(make_body(n, i) for i, n in enumerate(case["chunks"] * mult))


def pending_sends(obs_app: Any) -> List[dict]:
    out = []
    for inst in obs_app.instances:
        for s in inst.sends:
            if "outcome" not in s:
                out.append({"iid": inst.iid, "type": s["msg"].get("type")})
    return out


def returned_bytes(inst: Any) -> int:
    n = 0
    for s in inst.sends:
        if s.get("outcome") == "ok":
            m = s["msg"]
            n += len(m.get("body", "") or "") + len(m.get("bytes", "") or "")
    return n


# --------------------------------------------------------------------------- HTTP/1


async def scenario_h1(env: Any, case: Dict[str, Any], app: Any) -> Dict[str, Any]:
    a = env.connect()
    a.pause_reading(case["kernel"])
    a.send(b"GET /big HTTP/1.1\r\nHost: x\r\n\r\n")
    await env.settle(10.0)
    out: Dict[str, Any] = {"conn": a}
    inst = app.instances[0] if app.instances else None
    out["pending_at_event"] = pending_sends(app)
    out["held"] = (returned_bytes(inst) if inst else 0) - (len(a.rx) + len(_kernel(a)))
    # witness: another connection is served while this one is stalled
    b = env.connect()
    b.send(b"GET /small HTTP/1.1\r\nHost: x\r\nConnection: close\r\n\r\n")
    await env.settle(10.0)
    out["witness"] = b
    out["witness_rx"] = b.received()  # what it got while the first connection is still stalled
    ev = case["event"]
    if ev == "resume":
        a.resume_reading()
    elif ev == "dribble":
        for _ in range(2000):
            if a.held_by_server == 0 and not pending_sends(app):
                break
            a.accept_bytes(50021)
            await env.sleep(0.001)
        a.resume_reading()
    elif ev == "eof":
        a.eof()
    elif ev == "reset":
        a.reset()
    else:
        a.fail_writes(0)
        a.resume_reading()
    await env.settle(30.0)
    out["pending_after"] = pending_sends(app)
    if not a.server_gone:
        a.eof()
    await env.settle(30.0)
    return out


def _kernel(conn: Any) -> bytes:
    t = getattr(conn, "transport", None)
    if t is not None:
        return bytes(t.kernel)
    return bytes(conn.stream.kernel)


def judge_h1(case: Dict[str, Any], obs: Any, mult: int) -> Dict[str, Any]:
    be = obs.backend
    if obs.spin:
        raise Violation("spin", obs.spin, backend=be)
    val = obs.value
    conn = val["conn"]
    if conn.handler_exc is not None:
        raise Violation("handler_exception", repr(conn.handler_exc), backend=be)
    w = val["witness"]
    resps, left, err = parse_responses(val.get("witness_rx", w.received()), ["GET"], True)
    if err or len(resps) != 1 or not resps[0].complete or resps[0].body != b"witness":
        raise Violation("witness_blocked", f"second connection not served while the first was "
                        f"stalled: {[r.to_json() for r in resps]} {err}", backend=be)
    if val["pending_after"]:
        raise Violation("send_never_released", f"after event {case['event']}: still pending "
                        f"{val['pending_after']}", backend=be, event=case["event"])
    big = [i for i in obs.instances if i.scope.get("path") == "/big"]
    if len(big) != 1 or big[0].exit is None:
        raise Violation("app_never_finished", f"after event {case['event']}: "
                        f"{[(i.scope.get('path'), i.exit) for i in obs.instances]}", backend=be,
                        event=case["event"])
    bound = BOUND_BASE + 2 * max(case["chunks"])
    if val["held"] > bound:
        raise Violation("held_unbounded", f"server held {val['held']} bytes of a "
                        f"{total(case, mult)} byte response while the client accepted nothing "
                        f"(bound {bound})", backend=be)
    if case["event"] in ("resume", "dribble"):
        resps, left, err = parse_responses(conn.received(), ["GET"], conn.server_gone)
        if err or len(resps) != 1 or not resps[0].complete or \
                resps[0].body != body_of(case, mult):
            raise Violation("response_damaged_by_pressure", f"{[r.to_json() for r in resps]} "
                            f"{err}", backend=be)
    return {"pending": bool(val["pending_at_event"]), "held": val["held"]}


# --------------------------------------------------------------------------- HTTP/2 (and WS over it)


async def scenario_h2(env: Any, case: Dict[str, Any], app: Any, ws: bool) -> Dict[str, Any]:
    out: Dict[str, Any] = {}
    if case.get("over_limit"):
        return await scenario_over_limit(env, case, app)
    conn_limited = case["window"] == -1
    transport_limited = case["window"] == -2
    settings = {4: (1 << 24) if case["window"] < 0 else case["window"]}
    if ws:
        sess = WSSession(env, "h2", h2_settings=settings, direct=True)
        status = await sess.open(path="/big")
        client = sess.client
        conn = sess.conn
        sid = sess.sid
        out["status"] = status
        if transport_limited:
            conn.pause_reading(case["kernel"])
    else:
        conn = env.connect()
        client = H2Client(conn, settings)
        client.start()
        await env.settle0()
        client.pump()
        if transport_limited:
            conn.pause_reading(case["kernel"])
        sid = client.request([(b":method", b"GET"), (b":scheme", b"http"),
                              (b":authority", b"x"), (b":path", b"/big")], end_stream=True)
    assert client is not None
    # plenty of connection-level credit: only the stream window can stall the response
    if not conn_limited:
        client.h2.increment_flow_control_window(1 << 24)
        client.flush()
    client.ack_policy = "manual"
    for _ in range(50):
        await env.settle(5.0)
        if not client.pump():
            break
    out.update({"conn": conn, "client": client, "sid": sid})
    big = [i for i in app.instances if i.scope.get("path") == "/big"]
    delivered = len(client.streams.get(sid, {}).get("data", b""))
    out["pending_at_event"] = pending_sends(app)
    out["held"] = (returned_bytes(big[0]) if big else 0) - delivered
    if transport_limited:
        out["held"] -= len(_kernel(conn))
    sib = None
    if case.get("sibling") and case["window"] >= 0:
        sib = client.request([(b":method", b"GET"), (b":scheme", b"http"), (b":authority", b"x"),
                              (b":path", b"/small")], end_stream=True)
        try:
            client.h2.increment_flow_control_window(100, sib)
            client.flush()
        except Exception:
            pass
        for _ in range(10):
            await env.settle(5.0)
            if not client.pump():
                break
        out["sibling"] = {k: (bytes(v) if isinstance(v, (bytes, bytearray)) else v)
                          for k, v in client.streams.get(sib, {}).items()}
    ev = case["event"]
    if ev == "window_update":
        stalls, seen = 0, -1
        while stalls < 3:
            st_now = client.streams.get(sid, {})
            if st_now.get("ended") or client.goaway is not None:
                break
            stalls = stalls + 1 if len(st_now.get("data", b"")) == seen else 0
            seen = len(st_now.get("data", b""))
            try:
                client.h2.increment_flow_control_window(1 << 20, sid)
            except Exception:
                break
            client.flush()
            await env.settle(5.0)
            client.pump()
            client.unacked = []
    elif ev == "conn_window_update":
        stalls, seen = 0, -1
        while stalls < 3:
            st_now = client.streams.get(sid, {})
            if st_now.get("ended") or client.goaway is not None:
                break
            stalls = stalls + 1 if len(st_now.get("data", b"")) == seen else 0
            seen = len(st_now.get("data", b""))
            try:
                client.h2.increment_flow_control_window(1 << 20)
            except Exception:
                break
            client.flush()
            await env.settle(5.0)
            client.pump()
            client.unacked = []
    elif ev == "settings_window":
        client.h2.update_settings({4: 1 << 24})
        client.flush()
        for _ in range(200):
            await env.settle(5.0)
            if not client.pump():
                break
            client.unacked = []
    elif ev == "rst_stream":
        try:
            client.h2.reset_stream(sid)
            client.flush()
        except Exception:
            pass  # the stream already ended: nothing to reset
    elif ev == "conn_eof":
        conn.eof()
    elif ev in ("resume", "dribble"):
        if ev == "dribble":
            for _ in range(2000):
                if conn.held_by_server == 0 and not pending_sends(app):
                    break
                conn.accept_bytes(50021)
                await env.sleep(0.001)
        conn.resume_reading()
        for _ in range(400):
            await env.settle(5.0)
            if not client.pump():
                break
            client.unacked = []
    else:
        conn.reset()
    await env.settle(30.0)
    client.pump()
    out["pending_after"] = pending_sends(app)
    if not conn.server_gone:
        conn.eof()
    await env.settle(30.0)
    return out


async def scenario_over_limit(env: Any, case: Dict[str, Any], app: Any) -> Dict[str, Any]:
    """keep_alive_max_requests = 0: the request is answered with GOAWAY on receipt and the
    server's HTTP/2 state machine refuses the response.  Nothing further comes from the client
    (the h2 client library accepts nothing after a GOAWAY): the sends must return by themselves."""
    conn = env.connect()
    window = case["window"]
    client = H2Client(conn, {4: (1 << 24) if window < 0 else window})
    client.start()
    client.h2.increment_flow_control_window(1 << 24)
    sid = client.request([(b":method", b"GET"), (b":scheme", b"http"), (b":authority", b"x"),
                          (b":path", b"/big")], end_stream=True)
    await env.settle(120.0)
    out: Dict[str, Any] = {"conn": conn, "client": client, "sid": sid, "held": 0,
                           "pending_at_event": pending_sends(app),
                           "pending_after": pending_sends(app)}
    big = [i for i in app.instances if i.scope.get("path") == "/big"]
    out["finished_before_close"] = bool(big) and big[0].exit is not None
    conn.eof()
    await env.settle(30.0)
    return out


def judge_h2(case: Dict[str, Any], obs: Any, mult: int, ws: bool) -> Dict[str, Any]:
    be = obs.backend
    if obs.spin:
        raise Violation("spin", obs.spin, backend=be)
    val = obs.value
    conn, client, sid = val["conn"], val["client"], val["sid"]
    if conn.handler_exc is not None:
        raise Violation("handler_exception", repr(conn.handler_exc), backend=be)
    if client.error:
        raise Violation("client_protocol_error", client.error, backend=be)
    if case.get("sibling") and case["window"] >= 0:
        s = val.get("sibling", {})
        if not s.get("ended") or bytes(s.get("data", b"")) != b"witness":
            raise Violation("sibling_blocked", f"sibling stream not served while stream {sid} "
                            f"was stalled: ended={s.get('ended')} data={bytes(s.get('data', b''))!r}",
                            backend=be)
    if val["pending_after"]:
        raise Violation("send_never_released", f"after event {case['event']}: still pending "
                        f"{val['pending_after']}", backend=be, event=case["event"])
    big = [i for i in obs.instances if i.scope.get("path") == "/big"]
    if len(big) != 1 or big[0].exit is None:
        raise Violation("app_never_finished", f"after event {case['event']}: "
                        f"{[(i.scope.get('path'), i.exit) for i in obs.instances]}", backend=be,
                        event=case["event"])
    if case.get("over_limit"):
        if not val["finished_before_close"]:
            raise Violation("app_never_finished", "request over keep_alive_max_requests: the "
                            "application was still running 120 s after the GOAWAY", backend=be,
                            event="over_limit")
        return {"pending": True, "held": 0}
    if case["event"] in ("window_update", "settings_window", "conn_window_update", "resume",
                         "dribble"):
        st_ = client.streams.get(sid, {})
        data = bytes(st_.get("data", b""))
        if ws:
            frames, _, err = parse_server_frames(data)
            events, err2 = assemble_messages(frames) if not err else ([], err)
            got = b"".join(e["data"] for e in events if e["kind"] == "binary")
            if err or err2 or got != body_of(case, mult):
                raise Violation("response_damaged_by_pressure", f"ws: {len(got)} bytes of "
                                f"{total(case, mult)} {err or err2}", backend=be)
        elif not st_.get("ended") or data != body_of(case, mult):
            raise Violation("response_damaged_by_pressure", f"ended={st_.get('ended')} "
                            f"{len(data)} of {total(case, mult)} bytes", backend=be)
    bound = BOUND_BASE + 2 * max(case["chunks"])
    if val["held"] > bound:
        raise Violation("h2_held_unbounded", f"server held {val['held']} bytes of a "
                        f"{total(case, mult)} byte response for stream {sid} while its window "
                        f"({case['window']}) was exhausted (bound {bound})", backend=be,
                        limited_by="transport" if case["window"] == -2 else "flow_control")
    return {"pending": bool(val["pending_at_event"]), "held": val["held"]}


# ---------------------------------------------------------------------------

SMALL = [["recv_all"], ["respond", 200, [["content-length", "7"]], ["witness"]]]


def run_case(case: Dict[str, Any]) -> CaseInfo:
    proto = case["proto"]
    ws = proto == "ws2"
    cfg = {"keep_alive_timeout": T_BIG}
    if case.get("over_limit"):
        cfg["keep_alive_max_requests"] = 0
    pending_any = False
    helds = []
    for mult in (1, 4):
        programs = {"/big": app_program(case, mult, ws), "/small": SMALL}
        for be in BACKENDS:
            holder: Dict[str, Any] = {}

            def factory(env: Any, obs: Any) -> Any:
                from sim.apps import ScriptedApp

                obs.app = ScriptedApp(programs, env)
                holder["app"] = obs.app
                return obs.app.wrapper()

            async def sc(env: Any) -> Any:
                if proto == "h1":
                    return await scenario_h1(env, case, holder["app"])
                return await scenario_h2(env, case, holder["app"], ws)

            obs = run_sim(be, cfg, programs, sc, app_factory=factory, sched=case.get("sched", 0))
            info = judge_h1(case, obs, mult) if proto == "h1" else judge_h2(case, obs, mult, ws)
            pending_any = pending_any or info["pending"]
            helds.append(info["held"])
    classes = ["proto=" + proto, "event=" + case["event"],
               "pending" if pending_any else "no_pending"]
    if case.get("over_limit"):
        classes.append("over_limit")
    if proto != "h1":
        classes.append("window=%d" % case["window"])
    return CaseInfo(pending_any, classes, evals=4)


def parts() -> List[Part]:
    return [
        Part("h1", run_case, strategy=lambda: case_strategy("h1"), quick=500, thorough=15000,
             rule="HTTP/1.1 response against a client that stops reading"),
        Part("h2", run_case, strategy=lambda: case_strategy("h2"), quick=400, thorough=15000,
             rule="HTTP/2 response against an exhausted stream window"),
        Part("ws2", run_case, strategy=lambda: case_strategy("ws2"), quick=200, thorough=8000,
             rule="WebSocket over HTTP/2 messages against an exhausted stream window"),
    ]
