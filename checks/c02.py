"""C02 - HTTP response delivery fidelity and legal framing."""
from __future__ import annotations

import base64
from typing import Any, Dict, List

import h2.settings
from hypothesis import strategies as st

from gen.http import TOKEN_CHARS, make_body, segmentation
from sim.run import BACKENDS, run_sim
from vlib.core import CaseInfo, Part, Violation
from wire.h1 import b2s, h11_client_view, parse_responses, s2b
from wire.h2c import FrameAccounting, H2Client

PROPERTY = "C02"
LEVEL = "exploration"
RULE = (
    "application response programs (status 200-599, header lists, chunk lists incl. empty / > "
    "16 KiB frame / > 64 KiB window, optional early hints and trailers) x request method incl. "
    "HEAD x HTTP/1.0, 1.1, 2, h2c x client consumption pace; oracle = own HTTP/1 parser (h11 "
    "client as second opinion) / own HTTP/2 frame accounting; non-trivial = >= 2 chunks or a "
    "suppressed-body class or body larger than a frame/window"
)
ASSUMPTIONS = [
    "applications obey ASGI (correct content-length if declared, no hop-by-hop headers)",
    "in-memory transport models (sim/)",
    "HTTP/2 trailers: only the 'only if' direction is asserted (as the statement says)",
]

SERVER_HEADERS_H1 = {b"date", b"server", b"alt-svc", b"connection", b"transfer-encoding"}
SERVER_HEADERS_H2 = {b"date", b"server", b"alt-svc"}
FORBIDDEN = {"connection", "transfer-encoding", "keep-alive", "upgrade", "content-length",
             "date", "server", "alt-svc", "te", "trailer", "proxy-connection", "host"}
T_BIG = 100000.0


@st.composite
def app_headers(draw: Any) -> List[list]:
    out = []
    names: List[str] = []
    for _ in range(draw(st.integers(0, 5))):
        if names and draw(st.integers(0, 3)) == 0:
            name = draw(st.sampled_from(names))
        else:
            name = draw(st.text(alphabet=TOKEN_CHARS.lower(), min_size=1, max_size=10)).lower()
            if name in FORBIDDEN:
                name = "x-" + name
        names.append(name)
        value = draw(st.text(alphabet="abcXYZ019 ,;=/\"-_.", max_size=14)).strip()
        out.append([name, value])
    return out


@st.composite
def response_spec(draw: Any, small: bool = False) -> Dict[str, Any]:
    status = draw(st.sampled_from([200, 200, 201, 202, 203, 204, 205, 206, 304, 404, 500, 299,
                                   599, 301]))
    if draw(st.integers(0, 2)) == 0:
        status = draw(st.integers(200, 599))
    nchunks = draw(st.integers(0, 2 if small else 6))
    chunks = []
    for _ in range(nchunks):
        k = draw(st.integers(0, 4 if small else 9))
        if k == 0:
            n = 0
        elif k == 1:
            n = 1
        elif k <= 5:
            n = draw(st.integers(2, 300))
        elif k <= 7:
            n = draw(st.integers(16000, 20000))
        else:
            n = draw(st.integers(60000, 90000))
        chunks.append({"len": n, "seed": draw(st.integers(0, 255))})
    return {
        "status": status,
        "headers": draw(app_headers()),
        "chunks": chunks,
        "declare_cl": draw(st.booleans()) and status not in (204, 304),
        "hints": draw(st.one_of(st.none(), st.lists(st.sampled_from(
            ["</a.css>; rel=preload", "</b.js>; rel=preload; as=script"]), min_size=1,
            max_size=2))),
        "trailers": draw(st.one_of(st.none(), st.lists(st.sampled_from(
            [["x-checksum", "abc"], ["x-t", ""], ["grpc-status", "0"]]), min_size=1,
            max_size=2))),
        # the shape in which the application hands over its header list (an Iterable)
        "headers_as": draw(st.sampled_from(["list", "list", "tuple", "lists", "iter", "generator",
                                            "map"])),
        "body_as": draw(st.sampled_from(["bytes", "bytes", "bytearray", "memoryview"])),
    }


@st.composite
def case_strategy(draw: Any, proto: str) -> Dict[str, Any]:
    if proto == "h1":
        opening = draw(st.sampled_from(["h1", "h1", "h1", "h1.0"]))
    else:
        opening = draw(st.sampled_from(["h2-alpn", "h2-prior", "h2c-upgrade"]))
    nreq = 1 if opening == "h1.0" else draw(st.sampled_from([1, 2, 2]))
    reqs = []
    for i in range(nreq):
        reqs.append({
            "method": draw(st.sampled_from(["GET", "GET", "POST", "HEAD", "HEAD", "OPTIONS"])),
            "te_trailers": draw(st.booleans()),
            "response": draw(response_spec(small=(i > 0))),
        })
    if opening == "h2c-upgrade" and (reqs[0]["method"] == "HEAD"
                                     or reqs[0]["response"]["status"] in (204, 304)):
        # the h2 *client* library cannot know the method/emptiness of an upgraded request and
        # would reject a declared length for a body that is legitimately absent
        reqs[0]["response"]["declare_cl"] = False
    window = draw(st.sampled_from([None, None, 0, 1, 1000, 20000, 200000]))
    pace = draw(st.sampled_from(["fast", "fast", "paused", "dribble"]
                                + (["conn_only"] if proto == "h2" else [])))
    if pace == "conn_only":
        window = 1 << 20  # stream windows never run out; only connection-level credit is given
    if proto == "h2" and pace in ("paused", "dribble") and draw(st.integers(0, 3)) == 0:
        # a body that fills the flow-control window exactly: the end of the stream needs no
        # credit and must not wait for any
        w = 65535 if window is None else window
        if 0 < w <= 70000:
            r0 = reqs[0]["response"]
            k = draw(st.integers(1, 3))
            sizes = [w // k] * k
            sizes[-1] += w - sum(sizes)
            r0["chunks"] = [{"len": n, "seed": 17 + j} for j, n in enumerate(sizes)]
    if window is not None and window <= 1:
        for r in reqs:  # one byte per round trip: keep such bodies short
            r["response"]["chunks"] = [{"len": min(c["len"], 6), "seed": c["seed"]}
                                       for c in r["response"]["chunks"][:3]]
    case = {
        "opening": opening,
        "requests": reqs,
        "pace": pace,
        "sched": draw(st.integers(0, 999)),
        "pause_dt": draw(st.sampled_from([0.5, 3.0])),
        "kernel": draw(st.sampled_from([0, 1000, 70000])),
        "window": window,
        "max_frame": draw(st.sampled_from([None, None, 16384, 32768, 100000])),
        "twin": None if draw(st.integers(0, 2)) else {
            "at": draw(st.sampled_from([0.0, 0.0, 0.01, 0.5])),
            "len": draw(st.sampled_from([2, 500, 70000])),
            "delay": draw(st.sampled_from([0.0, 0.0, 0.3])),
            "cl": draw(st.booleans())},
        # the empty line (CRLF) old clients append to a request, in the same write. Only behind
        # a request that ends the connection (HTTP/1.0), where nothing after it is looked at:
        # on a connection that stays open h11 answers a bare empty line with 400, which RFC
        # 7230 3.5 allows ("SHOULD ignore") and C02 does not speak about
        "stray": draw(st.sampled_from([None, "crlf"])) if opening == "h1.0" else None,
    }
    return case


def body_of(spec: Dict[str, Any]) -> bytes:
    return b"".join(make_body(c["len"], c["seed"]) for c in spec["chunks"])


def app_program(req: Dict[str, Any]) -> list:
    spec = req["response"]
    headers = [list(h) for h in spec["headers"]]
    if spec["declare_cl"]:
        headers.insert(len(headers) // 2, ["content-length", str(len(body_of(spec)))])
    start = {"type": "http.response.start", "status": spec["status"], "headers": headers,
             "$headers_as": spec.get("headers_as", "list")}
    if not headers and spec.get("headers_as") == "map":
        del start["headers"]  # the key is optional: an application with no headers may omit it
    prog: list = [["recv_all"]]
    if spec["hints"]:
        prog.append(["send_if_ext", "http.response.early_hint",
                     {"type": "http.response.early_hint", "links": spec["hints"]}])
    prog.append(["start_with_trailers", start, bool(spec["trailers"])])
    for c in spec["chunks"]:
        prog.append(["send", {"type": "http.response.body",
                              "body": b2s(make_body(c["len"], c["seed"])), "more_body": True,
                              "$body_as": spec.get("body_as", "bytes")}])
    prog.append(["send", {"type": "http.response.body", "body": "", "more_body": False}])
    if spec["trailers"]:
        prog.append(["send_if_ext", "http.response.trailers",
                     {"type": "http.response.trailers", "headers": spec["trailers"],
                      "more_trailers": False, "$headers_as": spec.get("headers_as", "list")}])
    prog.append(["recv_disc"])
    return prog


def request_bytes(i: int, req: Dict[str, Any], version: str) -> bytes:
    lines = [f"{req['method']} /r{i} HTTP/{version}", "Host: example.com"]
    if req["te_trailers"]:
        lines.append("TE: trailers")
    return ("\r\n".join(lines) + "\r\n\r\n").encode()


async def drive_h1(env: Any, case: Dict[str, Any]) -> Any:
    conn = env.connect()
    version = "1.0" if case["opening"] == "h1.0" else "1.1"
    for i, req in enumerate(case["requests"]):
        if case["pace"] != "fast":
            conn.pause_reading(case["kernel"])
        last = i == len(case["requests"]) - 1
        conn.send(request_bytes(i, req, version)
                  + (b"\r\n" if case.get("stray") == "crlf" and last else b""))
        await env.settle0()
        if case["pace"] == "paused":
            await env.sleep(case["pause_dt"])
            conn.resume_reading()
        elif case["pace"] == "dribble":
            for _ in range(400):
                if conn.held_by_server == 0:
                    break
                conn.accept_bytes(9973)
                await env.sleep(0.01)
            conn.resume_reading()
        await env.settle(100.0)
    conn.rx_before_eof = len(conn.received())  # a response is owed without the client hanging up
    conn.closed_before_eof = conn.server_gone  # ... and so is the close that delimits a body
    conn.eof()
    await env.settle(100.0)
    return conn


def h2_request_headers(i: int, req: Dict[str, Any], scheme: str) -> List[tuple]:
    hs = [(b":method", req["method"].encode()), (b":scheme", scheme.encode()),
          (b":authority", b"example.com"), (b":path", f"/r{i}".encode())]
    if req["te_trailers"]:
        hs.append((b"te", b"trailers"))
    return hs


async def drive_h2(env: Any, case: Dict[str, Any]) -> Any:
    opening = case["opening"]
    alpn = opening == "h2-alpn"
    conn = env.connect(alpn="h2" if alpn else None, tls=alpn)
    settings: Dict[int, int] = {}
    if case["window"] is not None:
        settings[h2.settings.SettingCodes.INITIAL_WINDOW_SIZE] = case["window"]
    if case["max_frame"] is not None:
        settings[h2.settings.SettingCodes.MAX_FRAME_SIZE] = case["max_frame"]
    manual = case["pace"] != "fast"
    holder_w: Dict[str, Any] = {}
    client = H2Client(conn, settings or None, ack_policy="manual" if manual else "immediate")
    reqs = case["requests"]
    first = 0
    if opening == "h2c-upgrade":
        payload = client.h2.initiate_upgrade_connection()
        req = reqs[0]
        lines = [f"{req['method']} /r0 HTTP/1.1", "Host: example.com",
                 "Connection: Upgrade, HTTP2-Settings", "Upgrade: h2c",
                 "HTTP2-Settings: " + payload.decode()]
        if req["te_trailers"]:
            lines.append("TE: trailers")
        conn.send(("\r\n".join(lines) + "\r\n\r\n").encode())
        await env.settle0()
        rx = conn.received()
        end = rx.find(b"\r\n\r\n")
        if not rx.startswith(b"HTTP/1.1 101") or end < 0:
            return {"conn": conn, "client": client, "upgrade_failed": rx[:200]}
        client.pos = end + 4
        client.flush()  # preface + settings
        client._st(1)
        first = 1
    else:
        client.start()
    await env.settle0()
    for i, req in enumerate(reqs):
        if i >= first:
            try:
                client.request(h2_request_headers(i, req, "https" if alpn else "http"),
                               end_stream=True)
            except Exception as e:  # connection already terminated by the server
                client.error = client.error or f"cannot send request {i}: {e!r}"
                break
        stalls = 0
        extra_credit = 0
        locals_ = holder_w
        while stalls < 300:
            await env.settle0()
            progressed = client.pump()
            await env.settle0()
            sid = 1 + 2 * i
            st_ = client.streams.get(sid, {})
            if st_.get("ended") or st_.get("reset") is not None or client.goaway is not None:
                break
            if progressed:
                stalls = 0
                continue
            stalls += 1
            if case["pace"] == "conn_only":
                owed = sum(n for _, n in client.unacked)
                client.unacked = []
                if owed:
                    await env.sleep(0.01)
                    client.h2.increment_flow_control_window(owed)
                    client.flush()
                    continue
                break
            if manual and client.unacked:
                # credit is about to be given; whatever needs none must already be here
                spec_i = reqs[i]["response"]
                want_len = 0 if suppressed(reqs[i]["method"], spec_i["status"]) \
                    else len(body_of(spec_i))
                if st_.get("responses") and len(st_.get("data", b"")) == want_len \
                        and "withheld" not in locals_:
                    await env.settle(5.0)
                    client.pump()
                    if not client.streams.get(sid, {}).get("ended"):
                        locals_["withheld"] = (sid, want_len)
                if case["pace"] == "paused":
                    await env.sleep(case["pause_dt"])
                    client.release_acks()
                else:
                    await env.sleep(0.01)
                    client.release_acks(1)
                continue
            # window exhausted and nothing to acknowledge: a tiny initial window needs credit.
            # (Only then: credit nobody asked for would wake a sender that stalled by itself.)
            try:
                if min(client.h2.remote_flow_control_window(sid),
                       client.h2.inbound_flow_control_window) > 0:
                    await env.settle(20.0)
                    if client.pump():
                        stalls = 0
                        continue
                    break
                client.h2.increment_flow_control_window(1 + (stalls * 7919) % 40000, sid)
                client.flush()
            except Exception:
                break
            await env.sleep(0.01)
        await env.settle(50.0)
        client.pump()
    conn.rx_before_eof = len(conn.received())
    conn.eof()
    await env.settle(100.0)
    return {"conn": conn, "client": client, "withheld": holder_w.get("withheld")}


def suppressed(method: str, status: int) -> bool:
    return method == "HEAD" or status in (204, 304) or 100 <= status < 200


def check_headers(got: List[tuple], spec: Dict[str, Any], allowed: set, be: str, i: int) -> None:
    want = [(s2b(n), s2b(v)) for n, v in spec["headers"]]
    if spec["declare_cl"]:
        want.insert(len(want) // 2, (b"content-length", str(len(body_of(spec))).encode()))
    head = got[:len(want)]
    if head != want:
        raise Violation("headers_mismatch", f"response {i}: got {got!r} want prefix {want!r}",
                        backend=be)
    for n, v in got[len(want):]:
        if n not in allowed:
            raise Violation("unexpected_server_header",
                            f"response {i}: {n!r}: {v!r} after the application's headers",
                            backend=be, name=b2s(n))


def judge_h1(case: Dict[str, Any], obs: Any) -> None:
    be = obs.backend
    conn = obs.value
    if obs.spin:
        raise Violation("spin", obs.spin, backend=be)
    if conn.handler_exc is not None:
        raise Violation("handler_exception", repr(conn.handler_exc), backend=be)
    reqs = case["requests"]
    methods = [r["method"] for r in reqs]
    data = conn.received()[:getattr(conn, "rx_before_eof", None)]
    resps, leftover, err = parse_responses(data, methods, conn.server_gone)
    if err:
        raise Violation("malformed_response", err, backend=be)
    if len(resps) != len(reqs) or leftover:
        raise Violation("response_count", f"{len(resps)} responses (+{len(leftover)} stray "
                        f"bytes) for {len(reqs)} requests", backend=be)
    second = h11_client_view(data, methods, conn.server_gone)
    for i, (req, r) in enumerate(zip(reqs, resps)):
        spec = req["response"]
        if not r.complete:
            raise Violation("response_incomplete", f"response {i}: {r.to_json()}", backend=be)
        if r.status != spec["status"]:
            raise Violation("status_mismatch", f"response {i}: {r.status} != {spec['status']}",
                            backend=be)
        if any(x.status != 100 for x in r.interim):
            raise Violation("unexpected_interim", f"response {i}: {[x.status for x in r.interim]}",
                            backend=be)
        check_headers(r.headers, spec, SERVER_HEADERS_H1, be, i)
        want_body = b"" if suppressed(req["method"], spec["status"]) else body_of(spec)
        if r.body != want_body:
            raise Violation("body_mismatch", f"response {i}: {len(r.body)} bytes, application "
                            f"sent {len(want_body)} (method {req['method']}, status "
                            f"{spec['status']})", backend=be)
        if r.trailers:
            raise Violation("trailers_on_http1", f"response {i}: {r.trailers}", backend=be)
        if r.framing == "close" and not getattr(conn, "closed_before_eof", conn.server_gone):
            # the end of the connection is the end of this body: the client learns it from the
            # server's close, not from its own
            raise Violation("close_delimited_not_closed", f"response {i}: still open 100 s after "
                            f"the response, until the client itself hung up", backend=be)
        # second opinion (harness consistency): h11's client must see the same thing
        if i < len(second) and "error" not in second[i]:
            s = second[i]
            if s["status"] != r.status or s["body"] != r.body or not s["complete"]:
                from sim.common import SimError

                raise SimError(f"parsers disagree on response {i}: own={r.to_json()} h11={s}")
    # end signalled exactly once: nothing but complete responses on the wire (leftover == 0)


def judge_h2(case: Dict[str, Any], obs: Any) -> None:
    be = obs.backend
    if obs.spin:
        raise Violation("spin", obs.spin, backend=be)
    val = obs.value
    conn, client = val["conn"], val["client"]
    if conn.handler_exc is not None:
        raise Violation("handler_exception", repr(conn.handler_exc), backend=be)
    if "upgrade_failed" in val:
        raise Violation("h2c_upgrade_failed", repr(val["upgrade_failed"]), backend=be)
    if client.error:
        raise Violation("client_protocol_error", client.error, backend=be)
    if val.get("withheld"):
        raise Violation("end_of_stream_withheld", f"stream {val['withheld'][0]}: all "
                        f"{val['withheld'][1]} body bytes had arrived, the window was used up, "
                        f"and END_STREAM (which needs no credit) only came after a WINDOW_UPDATE",
                        backend=be)
    data = conn.received()[:getattr(conn, "rx_before_eof", None)]
    if case["opening"] == "h2c-upgrade":
        data = data[data.find(b"\r\n\r\n") + 4:]
    acct = FrameAccounting().decode(data, max_frame=case["max_frame"] or 16384)
    if acct.error:
        raise Violation("malformed_frames", acct.error, backend=be)
    if acct.leftover:
        raise Violation("partial_frame", f"{acct.leftover} stray bytes", backend=be)
    reqs = case["requests"]
    for i, req in enumerate(reqs):
        sid = 1 + 2 * i
        spec = req["response"]
        s = acct.streams.get(sid)
        if s is None or not s.header_blocks:
            raise Violation("no_response", f"stream {sid}", backend=be)
        if s.rst is not None:
            raise Violation("stream_reset", f"stream {sid} reset {s.rst}", backend=be)
        blocks = list(s.header_blocks)
        hints = []
        while blocks and dict(blocks[0]).get(b":status", b"").startswith(b"1"):
            hints.append(blocks.pop(0))
        if not blocks:
            raise Violation("no_final_response", f"stream {sid}", backend=be)
        final = blocks.pop(0)
        if final[0][0] != b":status" or int(final[0][1]) != spec["status"]:
            raise Violation("status_mismatch", f"stream {sid}: {final[:1]} != {spec['status']}",
                            backend=be)
        if any(n.startswith(b":") for n, _ in final[1:]):
            raise Violation("pseudo_header_misplaced", f"stream {sid}: {final}", backend=be)
        check_headers(final[1:], spec, SERVER_HEADERS_H2, be, i)
        for hb in hints:
            if hb[0] != (b":status", b"103"):
                raise Violation("unexpected_interim", f"stream {sid}: {hb}", backend=be)
            links = [v for n, v in hb if n == b"link"]
            if links != [s2b(x) for x in (spec["hints"] or [])]:
                raise Violation("early_hint_mismatch", f"stream {sid}: {hb}", backend=be)
        if blocks:
            trailer = blocks.pop(0)
            if blocks:
                raise Violation("extra_header_blocks", f"stream {sid}: {blocks}", backend=be)
            if not req["te_trailers"]:
                raise Violation("trailers_without_te", f"stream {sid}: {trailer}", backend=be)
            if not spec["trailers"] or trailer != [(s2b(n), s2b(v)) for n, v in spec["trailers"]]:
                raise Violation("trailers_mismatch", f"stream {sid}: {trailer}", backend=be)
        elif spec["trailers"] and req["te_trailers"] and trailers_sent_ok(obs, i):
            # (the converse, for the one case that leaves no room: the client said exactly
            # "te: trailers", the response was announced with trailers, the server took them)
            raise Violation("trailers_lost", f"stream {sid}: the application's trailers "
                            f"{spec['trailers']} were accepted and never sent", backend=be)
        want_body = b"" if suppressed(req["method"], spec["status"]) else body_of(spec)
        if bytes(s.data) != want_body:
            raise Violation("body_mismatch", f"stream {sid}: {len(s.data)} bytes, application "
                            f"sent {len(want_body)}", backend=be)
        if s.end_stream != 1:
            raise Violation("end_stream_count", f"stream {sid}: {s.end_stream} END_STREAM flags",
                            backend=be)
        if s.frames_after_end:
            raise Violation("frames_after_end", f"stream {sid}: {s.frames_after_end}", backend=be)


def trailers_sent_ok(obs: Any, i: int) -> bool:
    """The application of request i sent http.response.trailers and the server accepted it."""
    for inst in obs.instances:
        if inst.scope.get("path") == f"/r{i}":
            return any(s_["msg"].get("type") == "http.response.trailers"
                       and s_.get("outcome") == "ok" for s_ in inst.sends)
    return False


def run_case(case: Dict[str, Any]) -> CaseInfo:
    h1 = case["opening"].startswith("h1") and case["opening"] != "h2c-upgrade"
    programs = {f"/r{i}": app_program(r) for i, r in enumerate(case["requests"])}
    cfg = {"keep_alive_timeout": T_BIG}

    twin = case.get("twin")
    if twin:
        tbody = make_body(twin["len"], 211)
        programs["/twin"] = [["recv_all"], ["sleep", twin["delay"]],
                             ["respond", 201, [["x-twin", "1"]] + (
                                 [["content-length", str(len(tbody))]] if twin["cl"] else []),
                              [b2s(tbody[:len(tbody) // 2]), b2s(tbody[len(tbody) // 2:])]]]
    holder: Dict[str, Any] = {}

    async def scenario(env: Any) -> Any:
        if twin:
            # a second connection of the same worker receives a response at the same time
            tc = env.connect()
            holder["twin"] = tc

            async def go() -> None:
                tc.send(b"GET /twin HTTP/1.1\r\nHost: twin.example\r\n\r\n")

            env.spawn_at(twin["at"], 0, go)
        out = await (drive_h1(env, case) if h1 else drive_h2(env, case))
        if twin:
            await env.settle(50.0)
            holder["twin_rx"] = holder["twin"].received()
            holder["twin"].eof()
            await env.settle(50.0)
        return out

    for be in BACKENDS:
        obs = run_sim(be, cfg, programs, scenario, sched=case.get("sched", 0))
        if twin:
            resps, left, err = parse_responses(holder["twin_rx"], ["GET"], False)
            if err or left or len(resps) != 1 or not resps[0].complete or \
                    resps[0].status != 201 or resps[0].body != tbody or \
                    resps[0].header(b"x-twin") != [b"1"]:
                raise Violation("second_connection_response", f"the connection served at the "
                                f"same time received {[r.to_json() for r in resps]} {err}",
                                backend=be)
        (judge_h1 if h1 else judge_h2)(case, obs)
    classes = ["opening=" + case["opening"], "pace=" + case["pace"]]
    if twin:
        classes.append("second_connection")
    big = False
    multi = False
    supp = False
    for r in case["requests"]:
        spec = r["response"]
        if len(spec["chunks"]) >= 2:
            multi = True
        if any(c["len"] > 16384 for c in spec["chunks"]):
            big = True
        if suppressed(r["method"], spec["status"]):
            supp = True
        if spec["trailers"] and r["te_trailers"]:
            classes.append("trailers+te")
        if spec["hints"]:
            classes.append("hints")
    if multi:
        classes.append("multi_chunk")
    if big:
        classes.append("chunk>frame")
    if supp:
        classes.append("suppressed_body")
    if not h1 and case["window"] is not None:
        classes.append("window=%d" % case["window"])
    return CaseInfo(nontrivial=multi or big or supp, classes=classes, evals=2)


def parts() -> List[Part]:
    return [
        Part("h1", run_case, strategy=lambda: case_strategy("h1"), quick=1200, thorough=60000,
             rule="HTTP/1.0 and 1.1 (keep-alive, 1-2 requests), client read pauses"),
        Part("h2", run_case, strategy=lambda: case_strategy("h2"), quick=800, thorough=40000,
             rule="HTTP/2 via ALPN, prior knowledge and h2c upgrade; initial windows 0..200000, "
                  "max frame sizes, immediate/late/dribbled acknowledgements"),
    ]
