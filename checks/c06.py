"""C06 - HTTP/1.x persistent-connection and pipelining safety."""
from __future__ import annotations

from typing import Any, Dict, List, Optional

from hypothesis import strategies as st

from gen.http import chunk_plan, deliver, make_body, segmentation
from sim.apps import find_queue_deadlock
from sim.run import BACKENDS, run_sim
from vlib.core import CaseInfo, Part, Violation
from wire.h1 import b2s, encode_request, parse_responses

PROPERTY = "C06"
LEVEL = "exploration"
RULE = (
    "pipelines of 1..6 HTTP/1.x requests (bodies, framings, Connection headers, versions, "
    "Expect: 100-continue) x segmentation from one read to one byte per read x application "
    "behaviour per request (answer before / while / after reading the body, leave it unread, "
    "send connection: close) x keep_alive_max_requests; oracle = RFC 7230 6.3 persistence "
    "reference model + ordering over the global event log; non-trivial = >= 2 requests with a "
    "boundary strictly inside a read, or a close condition before the last request"
)
ASSUMPTIONS = [
    "in-memory transport models (sim/)",
    "for a response finished before its request body arrived only 'closes, serves nothing "
    "further' is asserted (the announcement is not knowable at head time)",
]
T_BIG = 100000.0


@st.composite
def request_spec(draw: Any, i: int) -> Dict[str, Any]:
    version = draw(st.sampled_from(["1.1"] * 6 + ["1.0"]))
    k = draw(st.integers(0, 9))
    if k <= 3:
        n = 0
    elif k <= 7:
        n = draw(st.integers(1, 300))
    elif k == 8:
        n = draw(st.integers(3000, 9000))
    else:
        n = draw(st.integers(66000, 90000))
    framing = "none" if n == 0 and draw(st.booleans()) else draw(st.sampled_from(["cl", "chunked"]))
    if version == "1.0" and framing == "chunked":
        framing = "cl"
    conn = draw(st.sampled_from([None] * 6 + ["close", "Close", "keep-alive", "Keep-Alive, foo",
                                               "foo, close"]))
    mode = draw(st.sampled_from(["read_first"] * 4 + ["start_first", "respond_first", "no_read",
                                                      "no_read_exit", "abort", "abort_raise"]))
    # an Upgrade offer the server does not take (h2c next to a body, or an unknown protocol):
    # h11 pauses after such a request until its response is complete
    upgrade = draw(st.sampled_from([None] * 5 + ["h2c", "other"]))
    if upgrade == "h2c" and (framing == "none" or version != "1.1"):
        upgrade = None
    return {
        "upgrade": upgrade,
        "version": version, "conn": conn, "framing": framing, "body_len": n,
        "body_seed": draw(st.integers(0, 255)),
        "chunks": draw(chunk_plan(n, max_chunks=25)) if framing == "chunked" else [],
        "expect100": draw(st.integers(0, 5)) == 0 and n > 0 and version == "1.1",
        "method": draw(st.sampled_from(["GET", "POST", "PUT"])) if n == 0 else "POST",
        "app": {"mode": mode, "resp_len": draw(st.sampled_from([0, 1, 10, 2000, 70000])),
                "resp_cl": draw(st.booleans()), "app_close": draw(st.integers(0, 7)) == 0,
                # the application's own wish to keep the connection: does not lift a limit
                "app_keepalive": draw(st.sampled_from([None, None, None, "keep-alive",
                                                       "Keep-Alive"])),
                "delay": draw(st.sampled_from([0, 0, 0.5])),
                "stay": draw(st.booleans())},
    }


@st.composite
def case_strategy(draw: Any) -> Dict[str, Any]:
    n = draw(st.integers(1, 6))
    case = {
        "requests": [draw(request_spec(i)) for i in range(n)],
        "sched": draw(st.integers(0, 999)),
        "seg": draw(segmentation()),
        # plain keep-alive: each request is sent once the previous response has had time to end
        "sequential": draw(st.integers(0, 3)) == 0,
        # a further request the client gives up on: its head is cut short and the client
        # half-closes (it keeps reading) - an aborted message
        # (head_cut), or its head is complete and its body is not: cut short by the half-close
        # (body_cut) or broken by an invalid chunk-size line (bad_chunk)
        "tail": draw(st.sampled_from([None, None, None, None, "head_cut", "body_cut",
                                      "bad_chunk"])),
        "cfg": {"keep_alive_max_requests": draw(st.sampled_from([1, 2, 3, 1000, 1000, 1000])),
                "max_app_queue_size": draw(st.sampled_from([1, 2, 10, 10])),
                "h11_pass_raw_headers": draw(st.booleans())},
    }
    # what the application of the aborted request does: wait for its body, or end at once
    # without a response. The second is known finding C06-3 on the trio worker (the server's
    # answer and the application's failed 500 are both lost): excluded by construction and
    # counted; the committed replay keeps reporting it
    if case["tail"] in ("body_cut", "bad_chunk") and draw(st.integers(0, 3)) == 0:
        case["adjusted_tail_app"] = "return"
    case["tail_app"] = "wait"
    return avoid_known_deadlock(case)


UNREAD_MODES = ("no_read", "no_read_exit", "respond_first")


def avoid_known_deadlock(case: Dict[str, Any]) -> Dict[str, Any]:
    """Known finding C06-1 (known_findings.json): an application that leaves at least
    max_app_queue_size messages unread dead-locks the connection. Such shapes are excluded by
    construction (and counted through the 'adjusted:' class) so the search can go past them;
    the committed replay keeps reporting the finding itself."""
    unread = [r for r in case["requests"] if r["app"]["mode"] in UNREAD_MODES]
    if not unread:
        return case
    adjusted = False
    if case["cfg"]["max_app_queue_size"] != 10:
        case["cfg"]["max_app_queue_size"] = 10
        adjusted = True
    for r in unread:
        if r["body_len"] > 200 or r["framing"] == "chunked":
            r["body_len"] = min(r["body_len"], 200)
            r["framing"] = "cl"
            r["chunks"] = []
            adjusted = True
    if any(r["body_len"] > 0 for r in unread):
        seg = case["seg"]
        if seg["mode"] == "bytes" or (seg["mode"] == "blocks" and seg["block"] < 1000):
            seg["mode"] = "cuts"
            seg["cuts"] = [97, 1031]
            adjusted = True
    if adjusted:
        case["adjusted"] = "queue_deadlock_shape"
    return case


def req_bytes(i: int, r: Dict[str, Any]) -> bytes:
    headers = [["Host", "example.com"]]
    conn = r["conn"]
    if r.get("upgrade"):
        headers.append(["Upgrade", "h2c" if r["upgrade"] == "h2c" else "verif-proto/1"])
        conn = "upgrade" if conn is None else conn + ", upgrade"
        if r["upgrade"] == "h2c":
            headers.append(["HTTP2-Settings", "AAMAAABkAAQAAP__"])
            conn += ", HTTP2-Settings"
    if conn is not None:
        headers.append(["Connection", conn])
    if r["expect100"]:
        headers.append(["Expect", "100-continue"])
    return encode_request({
        "method": r["method"], "path": f"/r{i}", "query": None, "version": r["version"],
        "headers": headers, "framing": r["framing"],
        "body": b2s(make_body(r["body_len"], r["body_seed"])), "chunks": r["chunks"],
        "chunk_ext": False})


def resp_body(i: int, r: Dict[str, Any]) -> bytes:
    tag = f"<resp-{i}>".encode()
    n = r["app"]["resp_len"]
    return (tag + make_body(max(0, n - len(tag)), i))[:max(n, 0)] if n else b""


def app_program(i: int, r: Dict[str, Any]) -> list:
    a = r["app"]
    headers = [["x-req", str(i)]]
    body = resp_body(i, r)
    if a["resp_cl"]:
        headers.append(["content-length", str(len(body))])
    if a["app_close"]:
        headers.append(["connection", "close"])
    elif a.get("app_keepalive"):
        headers.append(["Connection" if a["app_keepalive"][0] == "K" else "connection",
                        a["app_keepalive"]])
    start = ["send", {"type": "http.response.start", "status": 200, "headers": headers}]
    sends = []
    if body:
        half = len(body) // 2
        if half:
            sends.append(["send", {"type": "http.response.body", "body": b2s(body[:half]),
                                   "more_body": True}])
        sends.append(["send", {"type": "http.response.body", "body": b2s(body[half:]),
                               "more_body": False}])
    else:
        sends.append(["send", {"type": "http.response.body", "body": "", "more_body": False}])
    prog: list = []
    if a["delay"]:
        prog.append(["sleep", a["delay"]])
    mode = a["mode"]
    if mode in ("abort", "abort_raise"):
        # promises more than it delivers, then gives up: the response is aborted
        hdrs = [["x-req", str(i)], ["content-length", str(len(body) + 7)]]
        prog += [["recv_all"],
                 ["send", {"type": "http.response.start", "status": 200, "headers": hdrs}],
                 ["send", {"type": "http.response.body", "body": b2s(body), "more_body": True}],
                 ["raise", "ValueError"] if mode == "abort_raise" else ["return"]]
        return prog
    if mode == "read_first":
        prog += [["recv_all"], start] + sends
    elif mode == "start_first":
        prog += [start, ["recv_all"]] + sends
    elif mode == "respond_first":
        prog += [start] + sends + [["recv_all"]]
    else:  # no_read / no_read_exit
        prog += [start] + sends
    if a["stay"] and mode != "no_read_exit":
        prog.append(["recv_disc"])
    return prog


def request_complete_before_response_end(r: Dict[str, Any]) -> bool:
    """Is the whole request certainly consumed before the application finishes its response?"""
    if r["framing"] == "none" or (r["framing"] == "cl" and r["body_len"] == 0):
        return True  # complete with the head itself
    return r["app"]["mode"] in ("read_first", "start_first")


def model(case: Dict[str, Any], actual_served: int = 0) -> Dict[str, Any]:
    """RFC 7230 6.3 reference: which requests are served, why the connection ends.

    Where the application finishes its response without having consumed the request, whether
    the server had already seen the end of that request depends on what had been read by then:
    both "reuse" and "close" are legal there, so the observed outcome picks the branch."""
    reqs = case["requests"]
    kmax = case["cfg"]["keep_alive_max_requests"]
    served = 0
    reason: Optional[str] = None
    announce = False
    for i, r in enumerate(reqs):
        served += 1
        tokens = [t.strip().lower() for t in (r["conn"] or "").split(",")]
        if r["version"] == "1.0":
            reason, announce = "http/1.0", True
        elif "close" in tokens:
            reason, announce = "client asked to close", True
        elif served >= kmax:
            reason, announce = "request maximum", True
        elif r["app"]["mode"] in ("abort", "abort_raise"):
            reason, announce = "aborted response", False
        elif r["app"]["app_close"]:
            reason, announce = "application sent connection: close", True
        elif not request_complete_before_response_end(r) and actual_served <= served:
            reason, announce = "early response", False
        if reason is not None:
            break
    return {"served": served, "reason": reason, "announce": announce}


TAIL = b"GET /tail HTTP/1.1\r\nHost: example.com\r\nX-Cut: sho"
TAILS = {
    "head_cut": TAIL,
    "body_cut": b"POST /tail HTTP/1.1\r\nHost: example.com\r\nContent-Length: 50\r\n\r\n0123456789",
    "bad_chunk": (b"POST /tail HTTP/1.1\r\nHost: example.com\r\nTransfer-Encoding: chunked\r\n\r\n"
                  b"5\r\nhello\r\nZZ\r\nworld\r\n0\r\n\r\n"),
}
# the application of the aborted request waits for its body (so the answer is the server's own)
TAIL_PROGRAM = [["recv_all"], ["respond", 200, [["x-req", "tail"]], ["late"]]]


async def scenario(env: Any, case: Dict[str, Any]) -> Any:
    conn = env.connect()
    tail = TAILS.get(case.get("tail") or "", b"")
    if case.get("sequential"):
        for i, r in enumerate(case["requests"]):
            if conn.server_gone:
                break
            await deliver(env, conn, req_bytes(i, r), case["seg"])
            await env.settle(20.0)
        if tail and not conn.server_gone:
            await deliver(env, conn, tail, case["seg"])
    else:
        data = b"".join(req_bytes(i, r) for i, r in enumerate(case["requests"])) + tail
        await deliver(env, conn, data, case["seg"])
    await env.settle(200.0)
    conn.eof()
    await env.settle(200.0)
    return conn


def seq_of_offset(conn: Any, off: int) -> int:
    for seq, t, total in conn.rx_marks:
        if total >= off:
            return seq
    return 1 << 60


def time_of_offset(conn: Any, off: int) -> float:
    for seq, t, total in conn.rx_marks:
        if total >= off:
            return t
    return float("inf")


def judge(case: Dict[str, Any], obs: Any) -> Dict[str, Any]:
    be = obs.backend
    conn = obs.value
    if obs.spin:
        raise Violation("spin", obs.spin, backend=be)
    if conn.handler_exc is not None:
        raise Violation("handler_exception", repr(conn.handler_exc), backend=be)
    dead = find_queue_deadlock(obs)
    if dead:
        raise Violation("app_queue_deadlock", dead, backend=be)
    reqs = case["requests"]
    insts = [i for i in obs.instances if i.scope.get("path") != "/tail"]
    tail_insts = [i for i in obs.instances if i.scope.get("path") == "/tail"]
    methods = [r["method"] for r in reqs]
    data = conn.received()
    resps, leftover, err = parse_responses(data, methods + ["GET"], conn.server_gone)
    if err:
        raise Violation("malformed_response", err, backend=be)
    tail_resp = None
    if case.get("tail") and len(resps) == len(reqs) + 1:
        tail_resp = resps.pop()  # the server's answer to the aborted message
    served = len(resps)
    m = model(case, served)
    if case.get("tail"):
        if m["reason"] is None:
            # every request was served and the connection was reusable: the aborted message is
            # answered by the server itself, which announces close and closes
            tokens = [] if tail_resp is None else [
                t.strip().lower() for v in tail_resp.header(b"connection") for t in v.split(b",")]
            # (an application that ends at once without responding may get its 500 out first)
            top = 600 if case.get("tail_app") == "return" else 500
            if tail_resp is None or not 400 <= tail_resp.status < top or not tail_resp.complete:
                raise Violation("aborted_message_not_answered", "request cut short / broken by "
                                "the client: " + (
                                    "no response" if tail_resp is None else
                                    f"{tail_resp.to_json()}"), backend=be,
                                tail_app=case.get("tail_app", "wait"))
            if b"close" not in tokens or not conn.server_gone:
                raise Violation("close_not_announced", f"answer to the aborted message: "
                                f"{tail_resp.headers}; closed={conn.server_gone}", backend=be,
                                reason="aborted message")
            if len(tail_insts) != (0 if case["tail"] == "head_cut" else 1):
                raise Violation("instance_count", f"{len(tail_insts)} instances for the aborted "
                                f"message ({case['tail']})", backend=be)
        elif tail_resp is not None and m["reason"] != "early response":
            raise Violation("served_after_close", "bytes behind the last request of the "
                            f"connection were answered ({tail_resp.status})", backend=be,
                            reason=m["reason"])
    # --- every response is complete, in order, carries its own body
    for i, r in enumerate(resps):
        req = reqs[i] if i < len(reqs) else None
        if req is None:
            raise Violation("extra_response", f"{len(resps)} responses for {len(reqs)} requests",
                            backend=be)
        if r.header(b"x-req") != [str(i).encode()]:
            raise Violation("response_order", f"response {i} carries x-req {r.header(b'x-req')} "
                            f"status {r.status}", backend=be)
        aborted = req["app"]["mode"] in ("abort", "abort_raise")
        if aborted:
            if r.complete:
                raise Violation("aborted_response_complete", f"response {i} parses as complete "
                                f"although the application gave up: {r.to_json()}", backend=be)
            if not resp_body(i, req).startswith(r.body):
                raise Violation("response_body_mixed", f"response {i} (aborted): foreign bytes",
                                backend=be)
            continue
        if not r.complete:
            raise Violation("response_incomplete", f"response {i}: {r.to_json()}", backend=be)
        if r.body != resp_body(i, req):
            raise Violation("response_body_mixed", f"response {i}: body differs from what the "
                            f"application for request {i} sent ({len(r.body)} bytes)", backend=be)
    if leftover:
        raise Violation("stray_bytes", f"{len(leftover)} bytes after the last response",
                        backend=be)
    # --- number served against the model
    if served != m["served"]:
        kind = "served_after_close" if served > m["served"] else "request_not_served"
        raise Violation(kind, f"{served} responses but the model serves {m['served']} "
                        f"(closing reason: {m['reason']})", backend=be, reason=m["reason"])
    if len(insts) != served:
        raise Violation("instance_count", f"{len(insts)} instances, {served} responses",
                        backend=be)
    # --- strictly one at a time: instance i+1 starts after the last byte of response i
    for i in range(1, served):
        end_seq = seq_of_offset(conn, resps[i - 1].end)
        if insts[i].start_seq < end_seq:
            raise Violation("overlap", f"instance {i} started (seq {insts[i].start_seq}) before "
                            f"response {i - 1} was complete (seq {end_seq})", backend=be)
    # --- bodies never leak between requests
    for i, inst in enumerate(insts):
        req = reqs[i]
        want = make_body(req["body_len"], req["body_seed"])
        got = inst.body()
        if req["app"]["mode"] in ("read_first", "start_first"):
            if got != want:
                raise Violation("request_body_mismatch", f"instance {i} received {len(got)} "
                                f"bytes, request {i} carried {len(want)}", backend=be)
        elif not want.startswith(got):
            raise Violation("request_body_leak", f"instance {i} received bytes that are not a "
                            f"prefix of its own body", backend=be)
    # --- closing behaviour
    last = served - 1
    r = resps[last]
    t_end = time_of_offset(conn, r.end)
    finals = [s for s in insts[last].sends
              if s["msg"].get("type") == "http.response.body" and not s["msg"].get("more_body")]
    t_done = max([t_end] + [s["t"] for s in finals])  # response over = last byte out and app said so
    if reqs[last]["app"]["mode"] in ("abort", "abort_raise"):
        t_done = insts[last].exit_t  # over when the application gave up
    if m["reason"] == "early response":
        # the request may or may not have been complete when its response ended: reuse and close
        # are both legal, but unserved requests must not be left hanging on an open connection
        if len(reqs) > served and not conn.server_gone:
            raise Violation("not_closed", "early response: later requests neither served nor "
                            "connection closed", backend=be, reason="early response")
    elif m["reason"] is not None:
        if not conn.server_gone:
            raise Violation("not_closed", f"connection still open after response {last} "
                            f"(reason: {m['reason']})", backend=be, reason=m["reason"])
        if conn.server_eof_at != t_done:
            raise Violation("close_delayed", f"response {last} was over at t={t_done}, server "
                            f"closed at t={conn.server_eof_at} (reason: {m['reason']})",
                            backend=be, reason=m["reason"])
        if m["announce"]:
            tokens = [t.strip().lower() for v in r.header(b"connection") for t in v.split(b",")]
            if b"close" not in tokens:
                raise Violation("close_not_announced", f"response {last} lacks connection: close "
                                f"(reason: {m['reason']}); headers {r.headers}", backend=be,
                                reason=m["reason"])
    else:
        # persisted through the whole pipeline: must still be open when the last response ended
        # (a malformed message pipelined right behind is answered and closes in the same instant)
        if conn.server_gone and conn.server_eof_at <= t_done and case.get("tail") != "bad_chunk":
            raise Violation("closed_although_reusable", f"closed at {conn.server_eof_at}",
                            backend=be)
    return {"served": served, "model": m}


def run_case(case: Dict[str, Any]) -> CaseInfo:
    cfg = dict(case["cfg"])
    cfg["keep_alive_timeout"] = T_BIG
    programs = {f"/r{i}": app_program(i, r) for i, r in enumerate(case["requests"])}
    programs["/tail"] = TAIL_PROGRAM if case.get("tail_app", "wait") == "wait" else [["return"]]

    async def sc(env: Any) -> Any:
        return await scenario(env, case)

    info = None
    for be in BACKENDS:
        obs = run_sim(be, cfg, programs, sc, sched=case.get("sched", 0))
        info = judge(case, obs)
    reqs = case["requests"]
    m = info["model"]
    classes = [f"nreq={len(reqs)}", "seg=" + case["seg"]["mode"],
               "between=" + case["seg"]["between"], "reason=" + str(m["reason"])]
    close_before_last = m["reason"] is not None and m["served"] < len(reqs)
    if close_before_last:
        classes.append("close_before_last")
    if any(r["expect100"] for r in reqs):
        classes.append("expect100")
    if case.get("adjusted"):
        classes.append("adjusted:" + case["adjusted"])
    if case.get("adjusted_tail_app"):
        classes.append("adjusted:tail_application_returns_at_once")
    for r in reqs:
        classes.append("app=" + r["app"]["mode"])
    nontrivial = (len(reqs) >= 2 and case["seg"]["mode"] != "bytes"
                  and case["seg"]["between"] != "settle") or close_before_last or \
        (len(reqs) >= 2 and case["seg"]["mode"] in ("one", "blocks", "cuts"))
    return CaseInfo(nontrivial, classes, evals=2)


def parts() -> List[Part]:
    return [
        Part("pipeline", run_case, strategy=case_strategy, quick=2000, thorough=100000,
             rule="pipelines of 1..6 requests, all bytes sent up front under a segmentation"),
    ]
