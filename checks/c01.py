"""C01 - HTTP request delivery fidelity (scope and body reach the application exactly)."""
from __future__ import annotations

from typing import Any, Dict, List

from hypothesis import strategies as st

from gen.http import (apply_segmentation, chunk_plan, deliver, h1_request, h2_request, make_body,
                      segmentation)
from sim.common import expected_addrs
from sim.run import BACKENDS, run_sim
from vlib.core import CaseInfo, Part, Violation
from wire.h1 import b2s, encode_request, expected_http_scope, percent_decode, s2b
from wire.h2c import H2Client, pump_until_quiet

PROPERTY = "C01"
LEVEL = "exploration"
RULE = (
    "structured requests (method, escaped target, header list, framing, body) x segmentation of "
    "the bytes into reads x delays between reads and before application receives, on both "
    "workers; expectation computed from the structure, never by parsing the bytes; non-trivial "
    "= body non-empty or >= 2 segments or repeated/mixed-case headers or an escape in the target"
)
ASSUMPTIONS = [
    "in-memory transports model asyncio selector transports / trio SocketStream (sim/)",
    "the h2 library in client role builds the HTTP/2 frames (flow-control respecting client)",
    "application always reads the whole body (unread bodies belong to C06)",
]

T_BIG = 100000.0


def app_program(app: Dict[str, Any]) -> list:
    prog: list = []
    if app.get("pre_delay"):
        prog.append(["sleep", app["pre_delay"]])
    start = {"type": "http.response.start", "status": 200, "headers": [["content-length", "2"]]}
    body = {"type": "http.response.body", "body": "ok", "more_body": False}
    mode = app.get("mode", "read_first")
    if mode == "start_first":  # streaming style: response head before the request body is read
        prog.append(["send", start])
        prog.append(["recv_all", app.get("recv_delay", 0)])
        prog.append(["send", body])
    elif mode == "one_then_start":
        prog.append(["recv"])
        prog.append(["send", start])
        prog.append(["recv_all", app.get("recv_delay", 0)])
        prog.append(["send", body])
    else:
        prog.append(["recv_all", app.get("recv_delay", 0)])
        prog.append(["send", start])
        prog.append(["send", body])
    prog.append(["recv_disc"])
    return prog


@st.composite
def case_strategy(draw: Any, proto: str) -> Dict[str, Any]:
    nreq = draw(st.sampled_from([1, 1, 2]))
    if proto == "h1":
        reqs = [draw(h1_request(versions=("1.1",) if i < nreq - 1 else ("1.1", "1.1", "1.0")))
                for i in range(nreq)]
        opening = draw(st.sampled_from(["h1", "h1", "h1-tls"]))
    else:
        reqs = [draw(h2_request()) for _ in range(nreq)]
        opening = draw(st.sampled_from(["h2-alpn", "h2-prior"]))
    late_upload = False
    if proto == "h2" and draw(st.integers(0, 5)) == 0:
        # earlier requests are answered in full without being read; the client still uploads
        # their (large) bodies afterwards, which is legal, and then sends a request with a body
        # under honest flow control: the credit spent on the ignored uploads must come back
        late_upload = True
        n_early = draw(st.integers(1, 2))
        early = [draw(h2_request()) for _ in range(n_early)]
        for r in early:
            r["body_len"] = draw(st.sampled_from([40000, 70000, 140000]))
            r["frames"] = draw(chunk_plan(r["body_len"], max_chunks=12))
            r["end_with_headers"] = False
        last = draw(h2_request())
        if last["body_len"] == 0:
            last["body_len"] = draw(st.sampled_from([1, 20000, 70000]))
            last["frames"] = []
            last["end_with_headers"] = False
        reqs = early + [last]
        nreq = len(reqs)
    truncate = None
    if draw(st.integers(0, 7)) == 0 and reqs[-1]["body_len"] > 1:
        truncate = draw(st.integers(1, reqs[-1]["body_len"] - 1))
    return {
        "opening": opening,
        "requests": reqs,
        "sched": draw(st.integers(0, 999)),
        "seg": draw(segmentation()),
        "cfg": {
            "max_app_queue_size": draw(st.sampled_from([1, 2, 3, 10])),
            "h11_pass_raw_headers": draw(st.booleans()) if proto == "h1" else False,
            "root_path": draw(st.sampled_from(["", "", "/api", "/a/b/"])),
            # server_names configured, with every name the clients here ask for among them:
            # the requests are served as if it were not set
            "server_names": draw(st.sampled_from([[], [], SERVED_NAMES])),
        },
        "app": {"pre_delay": draw(st.sampled_from([0, 0, 0.5, 2.0])),
                "recv_delay": draw(st.sampled_from([0, 0, 0, 0.01, 1.0])),
                "mode": draw(st.sampled_from(["read_first", "read_first", "start_first",
                                              "one_then_start"]))},
        "sock": draw(st.sampled_from(["inet", "inet", "inet6", "unix"])),
        "truncate": truncate,
        "late_upload": late_upload,
        # a second connection of the same worker, busy at the same time with requests of its
        # own: nothing of either connection may show up in the other's applications
        "twin": None if late_upload or draw(st.integers(0, 2)) else {
            "at": draw(st.sampled_from([0.0, 0.0, 0.001, 0.5])),
            "bodies": [draw(st.sampled_from([1, 300, 70000]))
                       for _ in range(draw(st.integers(1, 2)))],
            "split": draw(st.booleans())},
    }


def body_of(req: Dict[str, Any]) -> bytes:
    return make_body(req["body_len"], req["body_seed"])


def h1_bytes(req: Dict[str, Any]) -> bytes:
    r = dict(req)
    r["body"] = b2s(body_of(req))
    return encode_request(r)


def h1_truncated_bytes(req: Dict[str, Any], keep: int) -> bytes:
    """Request bytes cut so that exactly `keep` body bytes (framing aside) were sent."""
    full = h1_bytes(req)
    head_end = full.index(b"\r\n\r\n") + 4
    if req["framing"] == "cl":
        return full[:head_end + keep]
    # chunked: cut inside the chunk data region once `keep` payload bytes have gone out
    pos = head_end
    sent = 0
    while True:
        eol = full.index(b"\r\n", pos)
        size = int(full[pos:eol].split(b";")[0], 16)
        pos = eol + 2
        if sent + size >= keep:
            return full[:pos + (keep - sent)]
        sent += size
        pos += size + 2


def expected_scope(case: Dict[str, Any], req: Dict[str, Any]) -> Dict[str, Any]:
    opening = case["opening"]
    client, server = expected_addrs(case["sock"])
    if opening.startswith("h1"):
        r = dict(req)
        r["body"] = b2s(body_of(req))
        exp = expected_http_scope(r, raw_headers=case["cfg"]["h11_pass_raw_headers"])
        exp["scheme"] = "https" if opening == "h1-tls" else "http"
    else:
        hdrs = [(b"host", s2b(req["authority"]))]
        hdrs += [(s2b(n), s2b(v)) for n, v in req["headers"] if n != "host"]
        exp = {
            "type": "http", "method": req["method"].upper(),
            "path": percent_decode(req["path"]).decode("utf-8"),
            "raw_path": s2b(req["path"]),
            "query_string": s2b(req["query"]) if req["query"] is not None else b"",
            "headers": hdrs, "http_version": "2",
            "scheme": "https" if opening == "h2-alpn" else "http",
        }
    exp["client"] = client
    exp["server"] = server
    exp["root_path"] = case["cfg"]["root_path"].rstrip("/")
    return exp


def h2_headers(req: Dict[str, Any], scheme: str) -> List[tuple]:
    target = req["path"] + ("?" + req["query"] if req["query"] is not None else "")
    hs = [(b":method", s2b(req["method"])), (b":scheme", scheme.encode()),
          (b":authority", s2b(req["authority"])), (b":path", s2b(target))]
    hs += [(s2b(n), s2b(v)) for n, v in req["headers"]]
    return hs


class SegSender:
    """Collects what the h2 client wants to send; the driver delivers it segmented."""

    def __init__(self, conn: Any) -> None:
        self.conn = conn
        self.out = bytearray()

    @property
    def rx(self) -> bytearray:
        return self.conn.rx

    def send(self, data: bytes) -> None:
        self.out += data


async def scenario_h1(env: Any, case: Dict[str, Any]) -> Any:
    tls = case["opening"] == "h1-tls"
    conn = env.connect(alpn="http/1.1" if tls else None, tls=tls, sock_kind=case["sock"])
    await env.settle0()
    reqs = case["requests"]
    for i, req in enumerate(reqs):
        last = i == len(reqs) - 1
        if last and case.get("truncate") is not None:
            data = h1_truncated_bytes(req, case["truncate"])
        else:
            data = h1_bytes(req)
        await deliver(env, conn, data, case["seg"])
        await env.settle(50.0)
    if case.get("truncate") is not None:
        conn.eof()
    await wait_for_applications(env)
    conn.eof()
    await env.settle(50.0)
    return conn


async def scenario_h2(env: Any, case: Dict[str, Any]) -> Any:
    alpn = case["opening"] == "h2-alpn"
    conn = env.connect(alpn="h2" if alpn else None, tls=alpn, sock_kind=case["sock"])
    await env.settle0()
    seg = SegSender(conn)
    client = H2Client(seg)
    client.start()

    async def flush() -> None:
        if seg.out:
            data = bytes(seg.out)
            seg.out.clear()
            await deliver(env, conn, data, case["seg"])
        await env.settle0()

    await flush()
    reqs = case["requests"]
    for i, req in enumerate(reqs):
        last = i == len(reqs) - 1
        body = body_of(req)
        trunc = case.get("truncate") if last else None
        hs = h2_headers(req, "https" if alpn else "http")
        if client.goaway is not None or client.error:
            break  # the server has ended the connection: the judge sees what was not served
        if case.get("late_upload") and not last:
            sid = client.request(hs, end_stream=False)
            for _ in range(40):  # the whole response first ...
                await flush()
                client.pump()
                await flush()
                if client.streams.get(sid, {}).get("ended"):
                    break
                await env.settle(50.0)
            client.upload(sid, body, req["frames"], end_stream=True, pad=req.get("pad", 0))  # ... then the upload
        elif len(body) == 0 and req["end_with_headers"]:
            client.request(hs, end_stream=True)
        else:
            sid = client.request(hs, end_stream=False)
            if trunc is not None:
                client.upload(sid, body[:trunc], req["frames"], end_stream=False, pad=req.get("pad", 0))
            else:
                client.upload(sid, body, req["frames"], end_stream=True, pad=req.get("pad", 0))
        stalls = 0
        while stalls < 60:
            await flush()
            progressed = client.pump()
            await flush()
            if progressed or seg.out:
                stalls = 0
                continue
            if client.uploads_done() and stalls >= 1:
                break
            await env.settle(50.0)
            stalls += 1
    if case.get("truncate") is not None:
        conn.eof()
    await wait_for_applications(env)
    conn.eof()
    await env.settle(50.0)
    return conn


async def wait_for_applications(env: Any, rounds: int = 400) -> None:
    """The client has said everything; a slow application may still be working through what is
    queued for it (its reads pace the server's). The client stays until that has stopped."""
    seen = -1
    for _ in range(rounds):
        await env.settle(50.0)
        n = sum(1 for e in env.log.events if e["kind"] == "app_recv")
        if n == seen:
            break
        seen = n


def judge(case: Dict[str, Any], obs: Any) -> None:
    be = obs.backend
    conn = obs.value
    if obs.spin:
        raise Violation("spin", obs.spin, backend=be)
    if conn.handler_exc is not None:
        raise Violation("handler_exception", repr(conn.handler_exc), backend=be)
    reqs = case["requests"]
    insts = [i for i in obs.instances if not is_twin(i)]
    if case.get("twin"):
        judge_twin(case, obs)
    if len(insts) != len(reqs):
        raise Violation(
            "instance_count", f"{len(insts)} instances for {len(reqs)} requests", backend=be)
    for i, (req, inst) in enumerate(zip(reqs, insts)):
        unread = bool(case.get("late_upload")) and i < len(reqs) - 1
        exp = expected_scope(case, req)
        sc = inst.scope_copy
        for key, want in exp.items():
            got = sc.get(key)
            if key == "headers":
                got = [(bytes(n), bytes(v)) for n, v in got]
            if isinstance(want, tuple) and isinstance(got, (list, tuple)):
                got = tuple(got)
            if got != want:
                raise Violation("scope_mismatch", f"request {i}: scope[{key!r}] = {got!r}, "
                                f"client sent {want!r}", backend=be, field=key)
            live = inst.scope.get(key)  # the scope object itself, at the end of the session
            if key == "headers":
                live = [(bytes(n), bytes(v)) for n, v in live]
            if isinstance(want, tuple) and isinstance(live, (list, tuple)):
                live = tuple(live)
            if live != want:
                raise Violation("scope_changed_later", f"request {i}: scope[{key!r}] read "
                                f"{want!r} when the application started and {live!r} at the "
                                f"end", backend=be, field=key)
        body = body_of(req)
        truncated = case.get("truncate") is not None and i == len(reqs) - 1
        msgs = inst.received
        http_msgs = [m for m in msgs if m["type"] == "http.request"]
        got_body = b"".join(m.get("body", b"") for m in http_msgs)
        finals = [j for j, m in enumerate(http_msgs) if not m.get("more_body", False)]
        if unread:
            if http_msgs:
                raise Violation("harness", f"request {i} was meant to stay unread")
        elif truncated:
            sent = body[:case["truncate"]]
            if finals:
                raise Violation("false_body_end", f"request {i}: more_body=False although the "
                                f"client sent only {len(sent)}/{len(body)} bytes", backend=be)
            if not sent.startswith(got_body):
                raise Violation("body_corrupt", f"request {i}: truncated body not a prefix",
                                backend=be)
        else:
            if got_body != body:
                k = next((j for j in range(min(len(got_body), len(body)))
                          if got_body[j] != body[j]), min(len(got_body), len(body)))
                raise Violation(
                    "body_mismatch",
                    f"request {i}: app received {len(got_body)} bytes, client sent {len(body)}; "
                    f"first difference at {k}", backend=be)
            if len(finals) != 1 or finals[0] != len(http_msgs) - 1:
                raise Violation("body_end_marker", f"request {i}: more_body=False positions "
                                f"{finals} of {len(http_msgs)} messages", backend=be)
        # after the end of the body only the disconnect may follow
        types = [m["type"] for m in msgs]
        if "http.disconnect" in types:
            k = types.index("http.disconnect")
            if any(t == "http.request" for t in types[k:]):
                raise Violation("request_after_disconnect", f"request {i}: {types}", backend=be)
        for m in msgs:
            if m["type"] not in ("http.request", "http.disconnect"):
                raise Violation("unknown_message", f"request {i}: {m['type']}", backend=be)


def is_twin(inst: Any) -> bool:
    """A request of the second connection, told by its Host - a name the generators of the
    first connection's requests never use (they sample Host / :authority from fixed lists and
    keep `host` out of the free header names). Not by its path or another header: generated
    paths (/twin%2F) and header names (x-twin) have both walked into those namespaces."""
    return any(bytes(n).lower() == b"host" and bytes(v) == b"twin.example"
               for n, v in inst.scope.get("headers") or [])


def twin_requests(case: Dict[str, Any]) -> List[Dict[str, Any]]:
    return [{"method": "POST", "path": f"/twin/{k}", "query": None, "version": "1.1",
             "headers": [["Host", "twin.example"], ["X-Twin", str(k)]], "framing": "cl",
             "body": b2s(make_body(n, 200 + k))} for k, n in enumerate(case["twin"]["bodies"])]


def judge_twin(case: Dict[str, Any], obs: Any) -> None:
    be = obs.backend
    reqs = twin_requests(case)
    insts = [i for i in obs.instances if is_twin(i)]
    if len(insts) != len(reqs):
        raise Violation("instance_count", f"second connection: {len(insts)} instances for "
                        f"{len(reqs)} requests", backend=be, conn="twin")
    for k, (r, inst) in enumerate(zip(reqs, insts)):
        want = expected_http_scope(r, raw_headers=case["cfg"]["h11_pass_raw_headers"])
        sc = inst.scope_copy
        got_h = [(bytes(n), bytes(v)) for n, v in sc.get("headers", [])]
        if sc.get("path") != want["path"] or got_h != want["headers"] or \
                sc.get("method") != "POST":
            raise Violation("scope_mismatch", f"second connection, request {k}: "
                            f"{sc.get('method')} {sc.get('path')} {got_h}", backend=be,
                            field="twin")
        got = b"".join(m.get("body", b"") for m in inst.received if m["type"] == "http.request")
        if got != s2b(r["body"]):
            raise Violation("body_mismatch", f"second connection, request {k}: application "
                            f"received {len(got)} bytes, client sent {len(r['body'])}",
                            backend=be, conn="twin")


def programs_for(case: Dict[str, Any]) -> Dict[str, list]:
    programs = {"*": app_program(case["app"])}
    if case.get("late_upload"):
        answer = [["send", {"type": "http.response.start", "status": 200, "headers": []}],
                  ["send", {"type": "http.response.body", "body": "unread"}], ["recv_disc"]]
        for i in range(len(case["requests"]) - 1):
            programs["#%d" % i] = answer
    return programs


SERVED_NAMES = ["unrelated.example", "example.com", "localhost:8080", "[::1]:443", "a.b", "a",
                "[::1]:8443", "EXAMPLE.com", "xn--bcher-kva.example", "10.0.0.1", "twin.example"]


def run_case(case: Dict[str, Any]) -> CaseInfo:
    cfg = dict(case["cfg"])
    cfg["keep_alive_timeout"] = T_BIG
    programs = programs_for(case)
    h1 = case["opening"].startswith("h1")

    async def scenario(env: Any) -> Any:
        twin = None
        if case.get("twin"):
            twin = env.connect()
            data = b"".join(encode_request(r) for r in twin_requests(case))
            cut = len(data) // 2 if case["twin"]["split"] else len(data)

            async def first() -> None:
                twin.send(data[:cut])

            async def rest() -> None:
                twin.send(data[cut:])

            env.spawn_at(case["twin"]["at"], 0, first)
            if cut < len(data):
                env.spawn_at(case["twin"]["at"] + 0.25, 0, rest)
        conn = await (scenario_h1(env, case) if h1 else scenario_h2(env, case))
        if twin is not None:
            await env.settle(50.0)
            twin.eof()
            await env.settle(50.0)
        return conn

    for be in BACKENDS:
        obs = run_sim(be, cfg, programs, scenario, sched=case.get("sched", 0))
        judge(case, obs)
    reqs = case["requests"]
    classes = ["opening=" + case["opening"], "seg=" + case["seg"]["mode"],
               "between=" + case["seg"]["between"], f"nreq={len(reqs)}",
               "queue=%d" % case["cfg"]["max_app_queue_size"],
               "app=" + case["app"].get("mode", "read_first")]
    if any(r["body_len"] > 65536 for r in reqs):
        classes.append("body>64KiB")
    if any(r.get("framing") == "chunked" and len(r["chunks"]) > case["cfg"]["max_app_queue_size"]
           for r in reqs):
        classes.append("chunks>queue")
    if case.get("truncate") is not None:
        classes.append("truncated")
    if case.get("late_upload"):
        classes.append("late_upload")
    if case.get("twin"):
        classes.append("second_connection")
    if case["cfg"]["h11_pass_raw_headers"]:
        classes.append("raw_headers")
    if case["cfg"].get("server_names"):
        classes.append("server_names_set")
    nontrivial = (any(r["body_len"] > 0 for r in reqs) or case["seg"]["mode"] != "one"
                  or any("%" in r["path"] for r in reqs)
                  or any(len({h[0].lower() for h in r["headers"]}) < len(r["headers"])
                         for r in reqs))
    return CaseInfo(nontrivial=nontrivial, classes=classes, evals=2)


# --------------------------------------------------------------------------- exhaustive splits

TEMPLATES = [
    {"method": "GET", "path": "/", "query": None, "version": "1.1",
     "headers": [["Host", "a", " ", ""]], "framing": "none", "body_len": 0, "body_seed": 0,
     "chunks": [], "chunk_ext": False},
    {"method": "POST", "path": "/p%20q/%E2%82%AC", "query": "a=1&b=%26", "version": "1.1",
     "headers": [["Host", "a.b", " ", ""], ["X-Rep", "1", " ", " "], ["x-rep", "2", "", ""],
                 ["Empty", "", "", ""]],
     "framing": "cl", "body_len": 23, "body_seed": 9, "chunks": [], "chunk_ext": False},
    {"method": "put", "path": "/c", "query": "", "version": "1.1",
     "headers": [["HOST", "h", "\t", ""], ["Accept", "*/*", " ", ""]],
     "framing": "chunked", "body_len": 17, "body_seed": 3, "chunks": [5, 1, 4], "chunk_ext": True},
    {"method": "POST", "path": "/old", "query": "x", "version": "1.0",
     "headers": [["User-Agent", "t/1", " ", ""]],
     "framing": "cl", "body_len": 9, "body_seed": 200, "chunks": [], "chunk_ext": False},
]


def enumerate_splits(tier: str) -> Any:
    for ti, tpl in enumerate(TEMPLATES):
        data = h1_bytes(tpl)
        for cut in range(1, len(data)):
            for between in (("settle", "none", "sleep") if tier == "thorough" else ("settle",)):
                yield {
                    "opening": "h1", "requests": [tpl],
                    "seg": {"mode": "cuts", "cuts": [cut], "between": between, "dt": 0.5},
                    "cfg": {"max_app_queue_size": 2 if ti % 2 else 10,
                            "h11_pass_raw_headers": False, "root_path": ""},
                    "app": {"pre_delay": 0, "recv_delay": 0}, "sock": "inet", "truncate": None,
                }
        # two-request pipelines delivered with one cut (boundary effects between requests)
        if tier == "thorough" and tpl["version"] == "1.1":
            two = data + data
            for cut in range(1, len(two)):
                yield {
                    "opening": "h1", "requests": [tpl, tpl],
                    "seg": {"mode": "cuts", "cuts": [cut], "between": "settle", "dt": 0.5},
                    "cfg": {"max_app_queue_size": 10, "h11_pass_raw_headers": False,
                            "root_path": ""},
                    "app": {"pre_delay": 0, "recv_delay": 0}, "sock": "inet", "truncate": None,
                    "pipelined": True,
                }


def parts() -> List[Part]:
    return [
        Part("h1", run_case, strategy=lambda: case_strategy("h1"), quick=1400, thorough=60000,
             rule="HTTP/1.0/1.1 requests, content-length/chunked, 1-2 per connection"),
        Part("h2", run_case, strategy=lambda: case_strategy("h2"), quick=700, thorough=30000,
             rule="HTTP/2 (ALPN and prior knowledge) requests with DATA frame plans, "
                  "flow-control respecting client"),
        Part("h1_splits", run_case, enumerate=enumerate_splits,
             rule="every two-way split of 4 template requests (thorough: x3 inter-read "
                  "behaviours and every split of 2-request pipelines)"),
    ]
