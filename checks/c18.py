"""C18 - configured limits and worker recycling are enforced against any client."""
from __future__ import annotations

from typing import Any, Dict, List, Optional

from hypothesis import strategies as st

from checks.c04 import H2Builder
from gen.http import apply_segmentation, deliver, segmentation
from sim.run import BACKENDS, run_sim
from sim.serve import run_serve
from vlib.core import CaseInfo, Part, Violation
from wire.h1 import parse_responses
from hyperframe.frame import SettingsFrame
from wire.h2c import FrameAccounting, H2Client

PROPERTY = "C18"
LEVEL = "exploration"
RULE = (
    "for each limit its values incl. 0/1/boundaries and request streams that approach, hit and "
    "exceed it, arbitrarily segmented: head sizes vs h11_max_incomplete_size; K+j concurrent "
    "streams (raw frames) vs h2_max_concurrent_streams; header-block sizes vs "
    "h2_max_header_list_size; R+-1 requests vs keep_alive_max_requests on both protocols; "
    "max_requests m and jitter j at server level spread over one or many connections; oracle = "
    "boundary model per limit; non-trivial = a value equal to or within +-1 of the limit"
)
ASSUMPTIONS = [
    "a request head larger than the limit that is complete at every read boundary is "
    "unconstrained (h11 only judges incomplete data)",
    "the jitter draw (random.randint) is replaced by a recorder returning a generated value",
]
T_BIG = 100000.0
OK = [["recv_all"], ["respond", 200, [["content-length", "2"]], ["ok"]]]
HOLD = [["recv_all"], ["sleep", 50000.0], ["respond", 200, [["content-length", "2"]], ["ok"]]]

# --------------------------------------------------------------------------- (a) h11 head size


@st.composite
def head_case(draw: Any) -> Dict[str, Any]:
    limit = draw(st.sampled_from([40, 100, 1000, 16384]))
    delta = draw(st.sampled_from([-30, -2, -1, 0, 1, 2, 30, 500]))
    return {"kind": "head", "limit": limit, "size": max(30, limit + delta),
            "seg": draw(segmentation()), "sched": draw(st.integers(0, 999)),
            "second": draw(st.booleans())}


def head_bytes(size: int) -> bytes:
    base = b"GET /h HTTP/1.1\r\nHost: x\r\nX-Pad: "
    tail = b"\r\n\r\n"
    pad = max(0, size - len(base) - len(tail))
    return base + b"p" * pad + tail


def run_head(case: Dict[str, Any]) -> CaseInfo:
    data = head_bytes(case["size"])
    size = len(data)
    limit = case["limit"]
    parts_ = apply_segmentation(data, case["seg"])
    # the largest incomplete prefix the server holds at the end of some read
    prefix = 0
    worst = 0
    for p in parts_[:-1]:
        prefix += len(p)
        worst = max(worst, prefix)
    if case["seg"].get("between") in ("none", "mixed"):
        worst = 0  # reads may coalesce: nothing is known about intermediate states
    must_reject = worst > limit
    must_serve = size <= limit
    cfg = {"keep_alive_timeout": T_BIG, "h11_max_incomplete_size": limit}

    second = bool(case.get("second"))  # the head is the second request of a keep-alive connection

    async def sc(env: Any) -> Any:
        conn = env.connect()
        if second:
            conn.send(b"GET /first HTTP/1.1\r\nHost: x\r\n\r\n")
            await env.settle(5.0)
        await deliver(env, conn, data, case["seg"])
        await env.settle(20.0)
        conn.eof()
        await env.settle(20.0)
        return conn

    for be in BACKENDS:
        obs = run_sim(be, cfg, {"*": OK}, sc, sched=case.get("sched", 0))
        conn = obs.value
        tag = {"backend": be, "limit": "h11_max_incomplete_size"}
        if conn.handler_exc is not None:
            raise Violation("handler_exception", repr(conn.handler_exc), **tag)
        resps, _, err = parse_responses(conn.received(), ["GET", "GET"], conn.server_gone)
        if err:
            raise Violation("malformed_response", err, **tag)
        if second:
            if not resps or resps[0].status != 200 or not any(
                    i.scope.get("path") == "/first" for i in obs.instances):
                raise Violation("within_limit_rejected", "the ordinary first request of the "
                                f"connection: {[r.status for r in resps]}", **tag)
            resps = resps[1:]
        served = any(i.scope.get("path") == "/h" for i in obs.instances)
        if must_serve and (not served or not resps or resps[0].status != 200):
            raise Violation("within_limit_rejected", f"head of {size} bytes <= limit {limit}: "
                            f"{[r.status for r in resps]}", **tag)
        if must_reject:
            if served:
                raise Violation("oversize_head_reached_app", f"incomplete head of {worst} bytes "
                                f"> limit {limit} (total {size})", **tag)
            if not resps or not 400 <= resps[0].status < 500:
                raise Violation("oversize_head_not_4xx", f"{[r.status for r in resps]}", **tag)
            if not conn.server_gone:
                raise Violation("oversize_head_not_closed", "", **tag)
    return CaseInfo(abs(size - limit) <= 2 or abs(worst - limit) <= 2,
                    [f"limit={limit}", "reject" if must_reject else
                     ("serve" if must_serve else "unconstrained")], evals=2)


# --------------------------------------------------------------------------- (b)(c) HTTP/2 limits


@st.composite
def streams_case(draw: Any) -> Dict[str, Any]:
    k = draw(st.sampled_from([1, 2, 3, 5, 10]))
    return {"kind": "streams", "k": k, "extra": draw(st.sampled_from([0, 0, 1, 2])),
            "seg": draw(segmentation()), "sched": draw(st.integers(0, 999)),
            # over an h2c upgrade the upgraded request is the first of the concurrent streams
            "opening": draw(st.sampled_from(["prior", "prior", "h2c"]))}


def run_streams(case: Dict[str, Any]) -> CaseInfo:
    k, extra = case["k"], case["extra"]
    b = H2Builder()
    n = k + extra
    h2c = case.get("opening") == "h2c"
    for i in range(1 if h2c else 0, n):
        b.request(1 + 2 * i, f"/hold{i}".encode())
    data = bytes(b.out)
    cfg = {"keep_alive_timeout": T_BIG, "h2_max_concurrent_streams": k}

    async def sc(env: Any) -> Any:
        conn = env.connect()
        if h2c:
            conn.send(b"GET /hold0 HTTP/1.1\r\nHost: example.com\r\nConnection: Upgrade, "
                      b"HTTP2-Settings\r\nUpgrade: h2c\r\nHTTP2-Settings: AAMAAABkAAQAAP__\r\n\r\n")
            await env.settle(5.0)
        await deliver(env, conn, data, case["seg"])
        await env.settle(100000.0)
        conn.eof()
        await env.settle(20.0)
        return conn

    for be in BACKENDS:
        obs = run_sim(be, cfg, {"*": HOLD}, sc, sched=case.get("sched", 0))
        conn = obs.value
        tag = {"backend": be, "limit": "h2_max_concurrent_streams"}
        if conn.handler_exc is not None:
            raise Violation("handler_exception", repr(conn.handler_exc), **tag)
        rx = conn.received()
        if h2c:
            end = rx.find(b"\r\n\r\n")
            if not rx.startswith(b"HTTP/1.1 101") or end < 0:
                raise Violation("h2c_upgrade_failed", repr(rx[:80]), **tag)
            rx = rx[end + 4:]
        acct = FrameAccounting().decode(rx)
        if acct.error:
            raise Violation("malformed_frames", acct.error, **tag)
        adv = [s.get(3) for s in acct.settings if 3 in s]
        if not adv or adv[0] != k:
            raise Violation("limit_not_advertised", f"SETTINGS_MAX_CONCURRENT_STREAMS {adv}, "
                            f"configured {k}", **tag)
        if len(obs.instances) > k:
            raise Violation("too_many_concurrent_streams", f"{len(obs.instances)} application "
                            f"instances with h2_max_concurrent_streams={k}", **tag)
        if extra == 0:
            for i in range(n):
                s = acct.streams.get(1 + 2 * i)
                if s is None or bytes(s.data) != b"ok" or s.end_stream != 1:
                    raise Violation("within_limit_not_served", f"stream {1 + 2 * i} of {n} with "
                                    f"limit {k}", **tag)
        else:
            for i in range(k, n):
                s = acct.streams.get(1 + 2 * i)
                refused = (s is not None and s.rst is not None) or acct.goaway is not None
                if not refused:
                    raise Violation("excess_stream_not_refused", f"stream {1 + 2 * i} beyond the "
                                    f"limit {k}: no RST_STREAM, no GOAWAY", **tag)
                if s is not None and s.header_blocks:
                    raise Violation("excess_stream_answered", f"stream {1 + 2 * i}", **tag)
    return CaseInfo(True, [f"k={k}", f"extra={extra}"], evals=2)


@st.composite
def hlist_case(draw: Any) -> Dict[str, Any]:
    limit = draw(st.sampled_from([200, 1000, 4096]))
    return {"kind": "hlist", "limit": limit,
            "delta": draw(st.sampled_from([-100, -40, 0, 40, 100, 3000])),
            "nheaders": draw(st.sampled_from([1, 3, 10])), "sched": draw(st.integers(0, 999)),
            # how the connection became HTTP/2: the limit belongs to the connection either way
            "opening": draw(st.sampled_from(["prior", "prior", "h2c"]))}


def header_list_size(hs: List[tuple]) -> int:
    return sum(len(n) + len(v) + 32 for n, v in hs)  # RFC 7540 6.5.2


def run_hlist(case: Dict[str, Any]) -> CaseInfo:
    limit = case["limit"]
    base = [(b":method", b"GET"), (b":scheme", b"http"), (b":authority", b"example.com"),
            (b":path", b"/x")]
    target = max(header_list_size(base) + 40 * case["nheaders"], limit + case["delta"])
    extra_total = target - header_list_size(base)
    per = extra_total // case["nheaders"]
    extra = []
    for i in range(case["nheaders"]):
        name = f"x-h{i}".encode()
        vlen = max(0, per - 32 - len(name))
        extra.append((name, b"v" * vlen))
    size = header_list_size(base + extra)
    b = H2Builder()
    ack = SettingsFrame(0)
    ack.flags.add("ACK")
    b.add(ack)  # the server's SETTINGS (and so its limits) take effect once acknowledged
    h2c = case.get("opening") == "h2c"
    first = 3 if h2c else 1  # stream 1 is the upgraded request itself
    b.request(first, b"/w")
    b.headers(first + 2, base + extra, end_stream=True)
    b.request(first + 4, b"/w")
    cfg = {"keep_alive_timeout": T_BIG, "h2_max_header_list_size": limit}

    async def sc(env: Any) -> Any:
        conn = env.connect()
        if h2c:
            conn.send(b"GET /w HTTP/1.1\r\nHost: example.com\r\nConnection: Upgrade, "
                      b"HTTP2-Settings\r\nUpgrade: h2c\r\nHTTP2-Settings: AAMAAABkAAQAAP__\r\n\r\n")
            await env.settle(5.0)
        conn.send(bytes(b.out))
        await env.settle(20.0)
        conn.eof()
        await env.settle(20.0)
        return conn

    for be in BACKENDS:
        obs = run_sim(be, cfg, {"*": OK}, sc, sched=case.get("sched", 0))
        conn = obs.value
        tag = {"backend": be, "limit": "h2_max_header_list_size"}
        if conn.handler_exc is not None:
            raise Violation("handler_exception", repr(conn.handler_exc), **tag)
        rx = conn.received()
        if h2c:
            end = rx.find(b"\r\n\r\n")
            if not rx.startswith(b"HTTP/1.1 101") or end < 0:
                raise Violation("h2c_upgrade_failed", repr(rx[:80]), **tag)
            rx = rx[end + 4:]
        acct = FrameAccounting().decode(rx)
        if acct.error:
            raise Violation("malformed_frames", acct.error, **tag)
        adv = [s.get(6) for s in acct.settings if 6 in s]
        if not adv or adv[0] != limit:
            raise Violation("limit_not_advertised", f"SETTINGS_MAX_HEADER_LIST_SIZE {adv}, "
                            f"configured {limit}", **tag)
        served = any(i.scope.get("path") == "/x" for i in obs.instances)
        s = acct.streams.get(first + 2)
        if size <= limit - 64:
            if not served or s is None or bytes(s.data) != b"ok":
                raise Violation("within_limit_not_served", f"header list of {size} bytes, limit "
                                f"{limit}", **tag)
        elif size > limit + 64:
            if served:
                raise Violation("oversize_header_list_reached_app", f"header list of {size} "
                                f"bytes > h2_max_header_list_size {limit}", **tag)
            if not ((s is not None and s.rst is not None) or acct.goaway is not None):
                raise Violation("oversize_header_list_not_refused", f"{size} > {limit}", **tag)
    return CaseInfo(abs(size - limit) <= 150, [f"limit={limit}",
                                               "over" if size > limit else "within"], evals=2)


# --------------------------------------------------------------------------- (d) keep-alive max


@st.composite
def kamax_case(draw: Any) -> Dict[str, Any]:
    r = draw(st.sampled_from([0, 1, 1, 2, 3, 5]))
    proto = draw(st.sampled_from(["h1", "h2", "h2c"]))
    adjusted = None
    if r == 0 and proto == "h2c":
        # known finding C18-3: the request that upgrades the connection is counted without the
        # limit being looked at, so with a limit of 0 two requests are taken on instead of one;
        # excluded by construction (counted), the committed replay keeps reporting it
        r, adjusted = 1, "h2c_limit_0"
    return {"kind": "kamax", "proto": proto, "r": r, "adjusted": adjusted,
            "n": r + draw(st.sampled_from([-1, 0, 1, 2])), "pipelined": draw(st.booleans()),
            "sched": draw(st.integers(0, 999)),
            # the application's own wish to keep the connection does not lift the limit
            "app_conn": draw(st.sampled_from([None, None, "keep-alive", "Keep-Alive"]))}


def run_kamax(case: Dict[str, Any]) -> CaseInfo:
    r, n = case["r"], max(1, case["n"])
    cfg = {"keep_alive_timeout": T_BIG, "keep_alive_max_requests": r}
    h1 = case["proto"] == "h1"

    async def sc(env: Any) -> Any:
        if h1:
            conn = env.connect()
            reqs = [f"GET /k{i} HTTP/1.1\r\nHost: x\r\n\r\n".encode() for i in range(n)]
            if case["pipelined"]:
                conn.send(b"".join(reqs))
                await env.settle(20.0)
            else:
                for q in reqs:
                    if conn.server_gone:
                        break
                    conn.send(q)
                    await env.settle(5.0)
            conn.eof()
            await env.settle(20.0)
            return {"conn": conn}
        h2c = case["proto"] == "h2c"
        conn = env.connect() if h2c else env.connect(alpn="h2", tls=True)
        client = H2Client(conn)
        sent = 0
        first = 0
        if h2c:
            # the request that carries the upgrade is the connection's first request
            payload = client.h2.initiate_upgrade_connection()
            conn.send(b"GET /k0 HTTP/1.1\r\nHost: x\r\nConnection: Upgrade, HTTP2-Settings\r\n"
                      b"Upgrade: h2c\r\nHTTP2-Settings: " + payload + b"\r\n\r\n")
            await env.settle0()
            rx = conn.received()
            end = rx.find(b"\r\n\r\n")
            if not rx.startswith(b"HTTP/1.1 101") or end < 0:
                return {"conn": conn, "client": client, "sent": 0, "upgrade_failed": True}
            client.pos = end + 4
            client.flush()
            sent = first = 1
        else:
            client.start()
        await env.settle0()
        client.pump()
        for i in range(first, n):
            if client.goaway is not None or conn.server_gone:
                break
            try:
                client.request([(b":method", b"GET"), (b":scheme", b"https"),
                                (b":authority", b"x"), (b":path", f"/k{i}".encode())],
                               end_stream=True)
                sent += 1
            except Exception:
                break
            for _ in range(10):
                await env.settle(2.0)
                if not client.pump():
                    break
        await env.settle(20.0)
        client.pump()
        conn.eof()
        await env.settle(20.0)
        return {"conn": conn, "client": client, "sent": sent}

    prog = OK
    if case.get("app_conn") and h1:
        prog = [["recv_all"], ["respond", 200, [["content-length", "2"],
                                                ["connection", case["app_conn"]]], ["ok"]]]
    for be in BACKENDS:
        obs = run_sim(be, cfg, {"*": prog}, sc, sched=case.get("sched", 0))
        conn = obs.value["conn"]
        tag = {"backend": be, "limit": "keep_alive_max_requests", "proto": case["proto"]}
        if conn.handler_exc is not None:
            raise Violation("handler_exception", repr(conn.handler_exc), **tag)
        cap = r if h1 else r + 1
        if r == 0:
            # a limit of 0 cannot mean "no request at all" (the first one is only counted once
            # it is there): the first request is served and tells the client to stop
            cap = 1
        if len(obs.instances) > cap:
            raise Violation("too_many_requests_on_connection", f"{len(obs.instances)} requests "
                            f"served, keep_alive_max_requests={r}", **tag, r=r)
        if len(obs.instances) != min(n, cap):
            raise Violation("requests_within_limit_not_served", f"{len(obs.instances)} served of "
                            f"{n} sent, limit {r}", **tag)
        if h1:
            resps, _, err = parse_responses(conn.received(), ["GET"] * n, conn.server_gone)
            if err:
                raise Violation("malformed_response", err, **tag)
            if n >= r:
                last = resps[r - 1]
                toks = [t.strip().lower() for v in last.header(b"connection")
                        for t in v.split(b",")]
                if b"close" not in toks:
                    raise Violation("limit_not_announced", f"response {r - 1} lacks connection: "
                                    f"close", **tag)
                if not conn.server_gone:
                    raise Violation("not_closed_at_limit", "", **tag)
        else:
            data = conn.received()
            if case["proto"] == "h2c":
                if obs.value.get("upgrade_failed"):
                    raise Violation("h2c_upgrade_failed", "", **tag)
                data = data[data.find(b"\r\n\r\n") + 4:]
            acct = FrameAccounting().decode(data)
            if acct.error:
                raise Violation("malformed_frames", acct.error, **tag)
            if n >= cap and acct.goaway is None:
                raise Violation("limit_not_announced", f"{n} requests with limit {r}: no GOAWAY",
                                **tag)
            # "served": every request the server took on (and, when it said so, covered by the
            # last-stream-id of its GOAWAY) is answered in full
            for k in range(len(obs.instances)):
                sid = 1 + 2 * k
                st_ = acct.streams.get(sid)
                if st_ is None or bytes(st_.data) != b"ok" or st_.end_stream != 1:
                    raise Violation("request_taken_on_not_answered", f"request {k} (stream {sid}) "
                                    f"reached the application but its response is "
                                    f"{st_ and (bytes(st_.data), st_.end_stream, st_.rst)}; "
                                    f"limit {r}, goaway {acct.goaway}", **tag,
                                    which="over_limit" if k >= cap - 1 else "within_limit")
    return CaseInfo(abs(n - r) <= 1, [f"proto={case['proto']}", f"r={r}", f"n={n}"]
                    + (["adjusted:" + case["adjusted"]] if case.get("adjusted") else []), evals=2)


# --------------------------------------------------------------------------- (e) worker recycling


@st.composite
def recycle_case(draw: Any) -> Dict[str, Any]:
    m = draw(st.sampled_from([0, 1, 2, 5]))
    j = draw(st.sampled_from([0, 0, 1, 3]))
    per_conn = draw(st.sampled_from([1, 1, 2, 100]))
    # slow applications (one request per connection): the requests are all still in flight
    # when the threshold is crossed - taking a request on is what counts, not finishing it
    slow = draw(st.sampled_from([0.0, 0.0, 5.0])) if per_conn == 1 else 0.0
    return {"kind": "recycle", "m": m, "j": j, "draw": draw(st.integers(0, j)), "slow": slow,
            "per_conn": per_conn, "sched": draw(st.integers(0, 999)),
            # serve() with or without a shutdown_trigger of the caller's: recycling is the
            # worker's own business either way
            "callable": draw(st.booleans())}


def run_recycle(case: Dict[str, Any]) -> CaseInfo:
    import hypercorn.asyncio.run as arun
    import hypercorn.trio.run as trun

    m, j = case["m"], case["j"]
    calls: List[tuple] = []

    def fake_randint(a: int, b: int) -> int:
        calls.append((a, b))
        return min(max(case["draw"], a), b)

    cfg = {"graceful_timeout": 2.0, "keep_alive_timeout": 1000.0, "max_requests": m,
           "max_requests_jitter": j}
    progs = {"lifespan": [["recv"], ["send", {"type": "lifespan.startup.complete"}], ["recv"],
                          ["send", {"type": "lifespan.shutdown.complete"}]], "*": OK}
    if case.get("slow"):
        progs["*"] = [["recv_all"], ["sleep", case["slow"]]] + [op for op in OK
                                                                 if op[0] != "recv_all"]
    limit = m + case["draw"]

    async def sc(env: Any) -> Any:
        env.start_server(callable_trigger=case.get("callable", True))
        await env.settle0()
        sent = 0
        conn = None
        on_conn = 0
        for i in range(limit + 6):
            if conn is None or on_conn >= case["per_conn"] or conn.server_gone:
                conn = await env.connect()
                on_conn = 0
                if conn.refused:
                    break
            conn.send(f"GET /q{i} HTTP/1.1\r\nHost: x\r\n\r\n".encode())
            on_conn += 1
            sent += 1
            await env.sleep(0.1)
        await env.settle(30.0)
        return {"sent": sent}

    for be, mod in (("asyncio", arun), ("trio", trun)):
        calls.clear()
        orig = mod.randint
        mod.randint = fake_randint  # type: ignore
        try:
            res = run_serve(be, cfg, progs, sc, sched=case.get("sched", 0))
        finally:
            mod.randint = orig  # type: ignore
        tag = {"backend": be, "limit": "max_requests"}
        if res.serve_exc is not None:
            raise Violation("serve_raised", repr(res.serve_exc), **tag)
        cfg_after = getattr(res, "config", None)
        if cfg_after is not None and (cfg_after.max_requests, cfg_after.max_requests_jitter) != (
                m, j):
            # a replacement worker is started from the same Config: it must find the limits
            # the user configured, not the previous worker's draw
            raise Violation("config_changed_by_worker", f"max_requests={m}, jitter={j} became "
                            f"{cfg_after.max_requests}, {cfg_after.max_requests_jitter} after "
                            f"one worker run (draw {case['draw']})", **tag)
        if calls != [(0, j)]:
            raise Violation("jitter_range_wrong", f"randint called with {calls}, expected "
                            f"[(0, {j})]", **tag)
        served = len([i for i in res.instances if i.scope.get("type") == "http"])
        if res.serve_returned_at is None:
            raise Violation("worker_never_exits", f"{served} requests served with max_requests="
                            f"{m} jitter draw {case['draw']}", **tag)
        # the graceful exit begins with request number limit + 1 (which is still served)
        if served != limit + 1:
            raise Violation("recycle_threshold_wrong", f"{served} requests were taken on before "
                            f"the graceful exit; max_requests={m} + jitter {case['draw']} means "
                            f"exactly {limit + 1}", **tag)
    return CaseInfo(True, [f"m={m}", f"j={j}", f"per_conn={case['per_conn']}",
                           "slow_apps" if case.get("slow") else "fast_apps"], evals=2)


# ---------------------------------------------------------------------------


def run_case(case: Dict[str, Any]) -> CaseInfo:
    return {"head": run_head, "streams": run_streams, "hlist": run_hlist, "kamax": run_kamax,
            "recycle": run_recycle}[case["kind"]](case)


def parts() -> List[Part]:
    return [
        Part("h11_incomplete", run_case, strategy=head_case, quick=500, thorough=30000,
             rule="request heads within +-500 bytes of h11_max_incomplete_size, segmented"),
        Part("h2_streams", run_case, strategy=streams_case, quick=250, thorough=12000,
             rule="K + {0,1,2} concurrent streams (raw frames) against "
                  "h2_max_concurrent_streams=K"),
        Part("h2_header_list", run_case, strategy=hlist_case, quick=250, thorough=12000,
             rule="header lists sized around h2_max_header_list_size"),
        Part("keep_alive_max", run_case, strategy=kamax_case, quick=400, thorough=20000,
             rule="R-1..R+2 requests on one connection, HTTP/1 (sequential / pipelined) and "
                  "HTTP/2"),
        Part("worker_recycle", run_case, strategy=recycle_case, quick=150, thorough=6000,
             rule="max_requests m, jitter j with a generated draw; requests spread over one or "
                  "many connections through serve()"),
    ]
