"""C15 - graceful shutdown is orderly and bounded (server level)."""
from __future__ import annotations

from typing import Any, Dict, List, Optional

from hypothesis import strategies as st

from sim.run import BACKENDS
from sim.serve import run_serve
from vlib.core import CaseInfo, Part, Violation
from wire.h1 import parse_responses
from wire.h2c import FrameAccounting, H2Client
from wire.ws import handshake_request, make_key

PROPERTY = "C15"
LEVEL = "fault_enumeration"
RULE = (
    "0..5 connections, each in a generated phase when shutdown is triggered (fresh, idle "
    "keep-alive, mid request head, request finishing inside the grace period, request longer "
    "than it, stuck request, open HTTP/2 streams short and long, open WebSocket) x trigger "
    "source (callable, worker max_requests) x graceful_timeout x shutdown_timeout, through "
    "hypercorn.asyncio.serve and hypercorn.trio.serve over a unix socket under virtual time; "
    "oracle = new connections refused, idle connections closed at the trigger instant, "
    "requests inside the grace period delivered complete, everything closed by trigger + "
    "graceful_timeout, serve() returns by trigger + graceful + shutdown timeout + 1 s, "
    "lifespan.shutdown delivered; non-trivial = at least one connection open at the trigger"
)
ASSUMPTIONS = ["unix-domain sockets in one process keep the virtual clocks deterministic"]

PHASES = ["fresh", "idle", "mid_head", "short", "long", "stuck", "h2_short", "h2_long", "ws",
          "h2_two", "pipelined", "unread",
          # the request in progress is the one that upgraded the connection to HTTP/2 (h2c)
          "h2c_short"]


@st.composite
def case_strategy(draw: Any) -> Dict[str, Any]:
    return {
        "sched": draw(st.integers(0, 999)),
        "graceful": draw(st.sampled_from([0.5, 3.0, 10.0])),
        "shutdown_timeout": draw(st.sampled_from([2.0, 60.0])),
        "conns": draw(st.lists(st.sampled_from(PHASES), min_size=0, max_size=5)),
        "trigger": draw(st.sampled_from(["callable", "callable", "max_requests"])),
        # how long lifespan shutdown takes: at once, a second, or never (the server then gives
        # up after shutdown_timeout - not after some other time-out)
        "lifespan_delay": draw(st.sampled_from([0.0, 0.0, 1.0, 1e6])),
        # how the slow applications spread their response over time: all of it at the end, or
        # the body early and only the (empty / last) final message inside the grace period
        "tail": draw(st.sampled_from(["none", "none", "empty", "data"])),
        # serve() called without a shutdown_trigger (only meaningful with max_requests)
        "no_callable": draw(st.booleans()),
        # what the lifespan application does once it has said lifespan.shutdown.complete:
        # return, or stay (frameworks that loop on receive()): serve() returns all the same
        "lifespan_after": draw(st.sampled_from(["return", "return", "recv", "sleep"])),
    }


def programs_for(case: Dict[str, Any]) -> Dict[str, list]:
    g = case["graceful"]
    ok = ["respond", 200, [["content-length", "2"]], ["ok"]]
    tail = case.get("tail", "none")

    def slow(dt: float) -> list:
        if tail == "none":
            return [["recv_all"], ["sleep", dt], ok]
        first, last = ("ok", "") if tail == "empty" else ("o", "k")
        return [["recv_all"],
                ["send", {"type": "http.response.start", "status": 200,
                          "headers": [["content-length", "2"]]}],
                ["send", {"type": "http.response.body", "body": first, "more_body": True}],
                ["sleep", dt],
                ["send", {"type": "http.response.body", "body": last, "more_body": False}]]

    return {
        "lifespan": [["recv"], ["send", {"type": "lifespan.startup.complete"}], ["recv"],
                     ["sleep", case["lifespan_delay"]],
                     ["send", {"type": "lifespan.shutdown.complete"}]]
                    + {"recv": [["recv"]], "sleep": [["sleep", 1e7]]}.get(
                        case.get("lifespan_after", "return"), []),
        "/quick": [["recv_all"], ok],
        "/short": slow(1.0 + g / 2),
        "/shorter": slow(1.0 + g / 4),
        "/long": slow(1.0 + 3 * g),
        "/stuck": [["recv_all"], ["sleep", 1e7], ok],
        # 4 MiB to a client that never reads: the application ends up waiting inside a write
        "/huge": [["recv_all"], ["respond", 200, [], ["h" * 65536] * 64]],
        "/ws": [["recv"], ["send", {"type": "websocket.accept"}], ["ws_loop", {"echo": True}]],
    }


def req(path: str) -> bytes:
    return f"GET {path} HTTP/1.1\r\nHost: x\r\n\r\n".encode()


async def scenario(env: Any, case: Dict[str, Any]) -> Dict[str, Any]:
    env.start_server(callable_trigger=not (case.get("no_callable")
                                           and case["trigger"] == "max_requests"))
    await env.settle0()
    conns: List[Dict[str, Any]] = []
    for phase in case["conns"]:
        # (the server listens on two sockets: connections come in over both)
        c = await env.connect(read=phase != "unread", which=len(conns) % 2)
        info: Dict[str, Any] = {"phase": phase, "c": c}
        conns.append(info)
        if phase == "idle":
            c.send(req("/quick"))
        elif phase in ("h2_short", "h2_long", "h2_two"):
            client = H2Client(c)
            client.conn = _Adapter(c)
            client.start()
            info["client"] = client
        elif phase == "ws":
            c.send(handshake_request(path="/ws", key=make_key(2)))
    await env.sleep(1.0)
    # the in-progress work starts 1 s before the trigger
    for info in conns:
        c, phase = info["c"], info["phase"]
        if phase == "mid_head":
            c.send(req("/quick")[:10])
        elif phase in ("short", "long", "stuck"):
            c.send(req("/" + phase))
        elif phase == "unread":
            c.send(req("/huge"))
        elif phase == "h2c_short":
            c.send(b"GET /short HTTP/1.1\r\nHost: x\r\nConnection: Upgrade, HTTP2-Settings\r\n"
                   b"Upgrade: h2c\r\nHTTP2-Settings: AAMAAABkAAQAAP__\r\n\r\n"
                   b"PRI * HTTP/2.0\r\n\r\nSM\r\n\r\n\x00\x00\x00\x04\x00\x00\x00\x00\x00")
        elif phase == "pipelined":  # a second request already waits behind the one in progress
            c.send(req("/short") + req("/quick"))
        elif phase == "h2_two":
            client = info["client"]
            client.pump()
            info["sids"] = [client.request(
                [(b":method", b"GET"), (b":scheme", b"http"), (b":authority", b"x"),
                 (b":path", p)], end_stream=True) for p in (b"/shorter", b"/short")]
        elif phase in ("h2_short", "h2_long"):
            client = info["client"]
            client.pump()
            info["sid"] = client.request(
                [(b":method", b"GET"), (b":scheme", b"http"), (b":authority", b"x"),
                 (b":path", b"/short" if phase == "h2_short" else b"/long")], end_stream=True)
    await env.settle0()
    await env.sleep(1.0)
    out: Dict[str, Any] = {"conns": conns}
    if case["trigger"] == "callable":
        out["t_trigger"] = env.now()
        env.trigger_shutdown()
    else:
        # one more request than max_requests makes the worker begin its graceful exit
        extra = await env.connect()
        out["extra"] = extra
        extra.send(req("/quick"))
        out["t_trigger"] = env.now()
    await env.settle0()
    late = await env.connect(which=case.get("sched", 0) % 2)
    out["late"] = late
    if not late.refused:
        late.send(req("/quick"))
    # a new HTTP/2 stream on an existing connection must be refused
    for info in conns:
        if info["phase"] in ("h2_short", "h2_long", "h2_two") and not info["c"].server_gone:
            client = info["client"]
            client.pump()
            try:
                info["late_sid"] = client.request(
                    [(b":method", b"GET"), (b":scheme", b"http"), (b":authority", b"x"),
                     (b":path", b"/quick")], end_stream=True)
                # (the request left while the connection was still open)
                info["late_sent_at_open"] = not info["c"].server_gone
            except Exception:
                info["late_sid"] = None
    await env.settle(case["graceful"] + case["shutdown_timeout"] + 50.0)
    for info in conns:
        if "client" in info:
            info["client"].pump()
    return out


class _Adapter:
    """Lets the H2Client write to a server-level client connection."""

    def __init__(self, c: Any) -> None:
        self.c = c

    @property
    def rx(self) -> bytearray:
        return self.c.rx

    def send(self, data: bytes) -> None:
        if self.c._send is not None and not self.c.server_gone:
            try:
                self.c.send(data)
            except Exception:
                pass


def n_requests_before_trigger(case: Dict[str, Any]) -> int:
    return sum(2 if p == "h2_two" else 1 for p in case["conns"]
               if p in ("idle", "short", "long", "stuck", "h2_short", "h2_long", "ws", "h2_two",
                        "pipelined", "unread", "h2c_short"))


def judge(case: Dict[str, Any], res: Any) -> None:
    be = res.backend
    tag = {"backend": be, "trigger": case["trigger"]}
    if res.spin:
        raise Violation("spin", res.spin, **tag)
    if res.serve_exc is not None and not (
            case["lifespan_delay"] > case["shutdown_timeout"]
            and "LifespanTimeoutError" in repr(res.serve_exc)):
        raise Violation("serve_raised", repr(res.serve_exc), **tag)
    val = res.value
    t0 = val["t_trigger"]
    g = case["graceful"]
    eps = 1e-6
    bound = t0 + g + case["shutdown_timeout"] + 1.0
    if res.serve_returned_at is None:
        raise Violation("serve_never_returned", f"triggered at t={t0}, graceful {g}, shutdown "
                        f"timeout {case['shutdown_timeout']}; connections {case['conns']}", **tag)
    if res.serve_returned_at > bound + eps:
        raise Violation("serve_returned_late", f"returned at t={res.serve_returned_at}, bound "
                        f"{bound}", **tag)
    for info in val["conns"]:
        if info["c"].refused:
            raise Violation("connection_refused_while_serving", f"a connection opened before "
                            f"the trigger (phase {info['phase']}) was refused", **tag)
    late = val["late"]
    if not late.refused:
        resps, _, _ = parse_responses(late.received(), ["GET"], late.server_gone)
        if resps:
            raise Violation("accepted_after_trigger", f"a connection opened after the trigger "
                            f"was served: {resps[0].status}", **tag)
        # "stops accepting connections": the listening sockets are closed at the trigger, so an
        # attempt made after it cannot even connect
        raise Violation("listening_after_trigger", "a connection attempt made after the trigger "
                        "was not refused (the listening socket was still open)", **tag)
    life = [i for i in res.instances if i.scope.get("type") == "lifespan"]
    if not life or not any(m["type"] == "lifespan.shutdown" for m in life[0].received):
        raise Violation("lifespan_shutdown_not_delivered", "", **tag)
    t_down = next(m["_t"] for m in life[0].received if m["type"] == "lifespan.shutdown")
    # "runs lifespan shutdown": an application that needs less than shutdown_timeout for it
    # gets to say lifespan.shutdown.complete before serve() returns
    if case["lifespan_delay"] < case["shutdown_timeout"] and not any(
            s_["msg"].get("type") == "lifespan.shutdown.complete" and s_.get("outcome") == "ok"
            for s_ in life[0].sends):
        raise Violation("lifespan_shutdown_cut_short", f"lifespan.shutdown at t={t_down}, the "
                        f"application needed {case['lifespan_delay']}s of the "
                        f"{case['shutdown_timeout']}s allowed and was not waited for (ended: "
                        f"{life[0].exit})", **tag)
    for i in res.instances:
        if i.scope.get("type") == "lifespan" or i.start_t > t0:
            continue
        fin = i.exit_t if (i.exit_t is not None and not i.running_at_end) else 1e18
        if t_down < min(fin, t0 + g) - eps:
            raise Violation("lifespan_shutdown_before_requests_finished", f"lifespan.shutdown at "
                            f"t={t_down}; {i.scope.get('path')} ran until t={fin}; trigger {t0}, "
                            f"graceful {g}", **tag)
    for i in res.instances:
        if i.scope.get("type") != "lifespan" and i.start_t > t0 + eps:
            raise Violation("request_started_after_trigger", f"{i.scope.get('type')} "
                            f"{i.scope.get('path')} started at t={i.start_t}, shutdown was "
                            f"triggered at t={t0}", **tag)
    for info in val["conns"]:
        c, phase = info["c"], info["phase"]
        ptag = dict(tag, phase=phase)
        if c.refused:
            raise Violation("refused_before_trigger", phase, **ptag)
        if phase == "unread":
            continue  # (this client does not look at its socket; only the bounds above apply)
        if phase in ("fresh", "idle", "mid_head"):
            if c.eof_at is None or abs(c.eof_at - t0) > eps:
                raise Violation("idle_connection_not_closed_at_once", f"{phase} connection "
                                f"closed at t={c.eof_at}, trigger at t={t0}", **ptag)
            if phase == "idle":
                resps, _, err = parse_responses(c.received(), ["GET"], True)
                if err or len(resps) != 1 or not resps[0].complete:
                    raise Violation("earlier_response_damaged", f"{err}", **ptag)
        elif phase in ("short", "pipelined"):
            resps, _, err = parse_responses(c.received(), ["GET", "GET"], c.server_gone)
            if err or len(resps) != 1 or not resps[0].complete or resps[0].body != b"ok":
                raise Violation("request_in_grace_period_not_delivered",
                                f"{[r.to_json() for r in resps]} {err}", **ptag)
            if c.eof_at is None or c.eof_at > t0 + g + eps:
                raise Violation("not_closed_by_deadline", f"closed at {c.eof_at}", **ptag)
        elif phase in ("long", "stuck", "ws"):
            if c.eof_at is None or c.eof_at > t0 + g + eps:
                raise Violation("not_closed_by_deadline", f"{phase} connection closed at "
                                f"t={c.eof_at}; trigger {t0} + graceful {g}", **ptag)
            # (with tail == "empty" every announced byte was sent before the trigger: the
            # response is complete on the wire whatever happens to the application later)
            if phase != "ws" and not (phase == "long" and case.get("tail") == "empty"):
                resps, _, err = parse_responses(c.received(), ["GET"], True)
                if any(r.complete and r.status < 500 for r in resps):
                    raise Violation("cancelled_request_looks_complete", f"{resps[0].to_json()}",
                                    **ptag)
        else:  # h2
            rx = c.received()
            if phase == "h2c_short":
                end = rx.find(b"\r\n\r\n")
                if not rx.startswith(b"HTTP/1.1 101") or end < 0:
                    raise Violation("h2c_upgrade_failed", repr(rx[:80]), **ptag)
                rx = rx[end + 4:]
                info["sid"] = 1
            acct = FrameAccounting().decode(rx)
            if acct.error:
                raise Violation("malformed_frames", acct.error, **ptag)
            s = acct.streams.get(info.get("sid"))
            if phase == "h2_two":
                for sid in info["sids"]:
                    s2 = acct.streams.get(sid)
                    if s2 is None or bytes(s2.data) != b"ok" or s2.end_stream != 1:
                        raise Violation("request_in_grace_period_not_delivered", f"stream {sid} "
                                        f"of two on one connection: "
                                        f"{s2 and (bytes(s2.data), s2.end_stream, s2.rst)}; "
                                        f"goaway={acct.goaway}", **ptag)
            if phase in ("h2_short", "h2c_short"):
                if s is None or bytes(s.data) != b"ok" or s.end_stream != 1:
                    raise Violation("request_in_grace_period_not_delivered", f"stream "
                                    f"{info.get('sid')}: {s and (bytes(s.data), s.end_stream)}",
                                    **ptag)
            ls = acct.streams.get(info.get("late_sid")) if info.get("late_sid") else None
            if ls is not None and ls.header_blocks and \
                    dict(ls.header_blocks[0]).get(b":status") == b"200":
                raise Violation("new_stream_served_after_trigger", f"stream {info['late_sid']}",
                                **ptag)
            # "new HTTP/2 streams are refused": the client learns that the stream was not taken
            # on - by its reset, or by a GOAWAY whose last-stream-id lies below it
            if info.get("late_sid") and info.get("late_sent_at_open"):
                told = (ls is not None and ls.rst is not None) or (
                    acct.goaway is not None and acct.goaway[0] < info["late_sid"])
                if not told:
                    raise Violation("new_stream_not_refused", f"stream {info['late_sid']} opened "
                                    f"after the trigger: no RST_STREAM, GOAWAY {acct.goaway}",
                                    **ptag)
            if c.eof_at is None or c.eof_at > t0 + g + eps:
                raise Violation("not_closed_by_deadline", f"closed at {c.eof_at}", **ptag)
            if phase in ("h2_short", "h2_two", "h2c_short") and acct.goaway is None:
                raise Violation("no_goaway", "connection with a finished stream closed without "
                                "telling the peer to go away", **ptag)

    # every request taken on is accounted for in the access log exactly once, also when it is
    # cut short by the end of the grace period (C03's count, under shutdown)
    access = [e for e in res.log.events if e["kind"] == "access"]
    for i in res.instances:
        if i.scope.get("type") == "lifespan":
            continue
        n = sum(1 for e in access if e["scope_id"] == id(i.scope))
        if n != 1:
            raise Violation("access_record_count", f"{i.scope.get('type')} {i.scope.get('path')} "
                            f"(started t={i.start_t}, ended {i.exit} at t={i.exit_t}): {n} access "
                            f"records; trigger at t={t0}, graceful {g}", **tag, count=n,
                            scope=i.scope.get("type"), exit=str(i.exit))

def run_case(case: Dict[str, Any]) -> CaseInfo:
    cfg: Dict[str, Any] = {"graceful_timeout": case["graceful"],
                           "shutdown_timeout": case["shutdown_timeout"],
                           "startup_timeout": 25.0,  # (different from either shutdown_timeout)
                           "keep_alive_timeout": 1000.0}
    if case["trigger"] == "max_requests":
        cfg["max_requests"] = n_requests_before_trigger(case)
    progs = programs_for(case)

    async def sc(env: Any) -> Any:
        return await scenario(env, case)

    for be in BACKENDS:
        res = run_serve(be, cfg, progs, sc, sched=case.get("sched", 0))
        judge(case, res)
    classes = ["trigger=" + case["trigger"], f"n={len(case['conns'])}"] + \
        ["phase=" + p for p in case["conns"]]
    return CaseInfo(len(case["conns"]) > 0, classes, evals=2)


def parts() -> List[Part]:
    return [Part("shutdown", run_case, strategy=case_strategy, quick=1600, thorough=30000,
                 rule="connection phases x trigger source x timeouts")]
