"""C20 - middleware semantics: proxy trust boundary, dispatch routing, HTTPS redirect."""
from __future__ import annotations

import copy
import os
import urllib.parse
from typing import Any, Dict, List, Optional, Tuple

from hypothesis import strategies as st

from vlib.core import CaseInfo, Part, Violation
from wire.h1 import b2s, s2b

PROPERTY = "C20"
LEVEL = "exploration"
RULE = (
    "forwarding-header lists x trusted_hops 0..4 x mode x attacker prefixes (reference model + "
    "metamorphic prefix invariance); ordered mount tables x request paths; lifespan fan-out with "
    "scripted mounts on both dispatcher variants; redirect scopes x hosts x root paths x raw "
    "paths x queries; non-trivial = attacker prefix present / >= 2 mounts / non-empty query or "
    "root path"
)
ASSUMPTIONS = [
    "Forwarded elements are generated in canonical lower-case unquoted form (the only form the "
    "documentation shows)",
    "lifespan fan-out runs on the virtual asyncio loop / trio MockClock; quiescence = nothing "
    "runnable",
]


def run_sync(coro: Any) -> Any:
    """Drive a coroutine that never really suspends."""
    try:
        coro.send(None)
    except StopIteration as e:
        return e.value
    coro.close()
    raise Violation("unexpected_suspension", "middleware awaited something that did not complete")


# --------------------------------------------------------------------------- ProxyFix

_ip = st.sampled_from(["1.2.3.4", "10.0.0.1", "192.168.1.9", "203.0.113.7", "[2001:db8::1]",
                       "unknown", "_hidden", "8.8.8.8", "127.0.0.1"])
_proto = st.sampled_from(["http", "https", "ws", "wss"])
_host = st.sampled_from(["example.com", "evil.test", "internal:8080", "a.b.c", "h"])


@st.composite
def forwarded_element(draw: Any) -> str:
    parts = []
    keys = draw(st.lists(st.sampled_from(["for", "host", "proto", "by"]), min_size=1, max_size=4,
                         unique=True))
    for k in keys:
        if k == "for":
            parts.append("for=" + draw(_ip))
        elif k == "host":
            parts.append("host=" + draw(_host))
        elif k == "proto":
            parts.append("proto=" + draw(_proto))
        else:
            parts.append("by=" + draw(_ip))
    return ";".join(parts)


@st.composite
def header_lines(draw: Any, name: str, elem: Any) -> List[List[str]]:
    """1..3 header lines each a comma list of 1..3 elements, with optional spaces."""
    lines = []
    for _ in range(draw(st.integers(0, 3))):
        vals = draw(st.lists(elem, min_size=1, max_size=3))
        sep = draw(st.sampled_from([",", ", ", " , ", ",  "]))
        cased = draw(st.sampled_from([name, name.title(), name.upper()]))
        lines.append([cased, sep.join(vals)])
    return lines


@st.composite
def proxy_case(draw: Any) -> Dict[str, Any]:
    mode = draw(st.sampled_from(["legacy", "modern"]))
    headers: List[List[str]] = [["host", "orig.example"], ["accept", "*/*"]]
    if mode == "legacy":
        for name, elem in (("x-forwarded-for", _ip), ("x-forwarded-proto", _proto),
                           ("x-forwarded-host", _host)):
            headers += draw(header_lines(name, elem))
        if draw(st.booleans()):
            headers += draw(header_lines("forwarded", forwarded_element()))  # must be ignored
    else:
        headers += draw(header_lines("forwarded", forwarded_element()))
        if draw(st.booleans()):  # the other family, which modern mode must ignore altogether
            for name, elem in (("x-forwarded-for", _ip), ("x-forwarded-proto", _proto),
                               ("x-forwarded-host", _host)):
                headers += draw(header_lines(name, elem))
    order = draw(st.permutations(list(range(len(headers)))))
    # keep the relative order of lines of the same name (it is significant)
    headers = _stable_shuffle(headers, order)
    attacker = []
    if draw(st.booleans()):
        if mode == "legacy":
            attacker = [["x-forwarded-for", "6.6.6.6, 7.7.7.7"], ["X-Forwarded-Proto", "https"],
                        ["x-forwarded-host", "attacker.test"],
                        # obs-text octets (legal in a field value, not valid UTF-8)
                        ["x-forwarded-for", "\xff\xfe, 7.7.7.7"],
                        ["x-forwarded-host", "caf\xe9.test"]]
            attacker = draw(st.lists(st.sampled_from(attacker), min_size=1, max_size=3,
                                     unique_by=lambda h: h[0].lower()))
        else:
            attacker = [draw(st.sampled_from([
                ["forwarded", "for=6.6.6.6;host=attacker.test;proto=https"],
                ["forwarded", "for=\xff\xfe;host=caf\xe9.test;proto=https"]]))]
    return {
        "mode": mode, "hops": draw(st.integers(0, 4)), "headers": headers, "attacker": attacker,
        "type": draw(st.sampled_from(["http", "http", "websocket", "lifespan"])),
        "app_mutates": draw(st.booleans()),
        # an earlier request through the same middleware instance must leave no trace
        "warm": draw(st.booleans()),
    }


def _stable_shuffle(headers: List[List[str]], order: List[int]) -> List[List[str]]:
    by_name: Dict[str, List[List[str]]] = {}
    for h in headers:
        by_name.setdefault(h[0].lower(), []).append(h)
    out = []
    for i in order:
        name = headers[i][0].lower()
        out.append(by_name[name].pop(0))
    return out


def _values(headers: List[List[str]], name: str) -> List[str]:
    vals: List[str] = []
    for n, v in headers:
        if n.lower() == name:
            vals.extend(x.strip() for x in v.split(","))
    return vals


def proxy_model(mode: str, hops: int, headers: List[List[str]]) -> Dict[str, Optional[str]]:
    """Reference: the hops-th value from the right, or nothing."""
    out: Dict[str, Optional[str]] = {"client": None, "scheme": None, "host": None}
    if hops == 0:
        return out

    def pick(name: str) -> Optional[str]:
        vals = _values(headers, name)
        return vals[len(vals) - hops] if len(vals) >= hops else None

    if mode == "modern":
        el = pick("forwarded")
        if el is not None:
            for part in el.split(";"):
                k, _, v = part.partition("=")
                if k == "for":
                    out["client"] = v.strip()
                elif k == "host":
                    out["host"] = v.strip()
                elif k == "proto":
                    out["scheme"] = v.strip()
        return out
    out["client"] = pick("x-forwarded-for")
    out["scheme"] = pick("x-forwarded-proto")
    out["host"] = pick("x-forwarded-host")
    return out


def _make_scope(typ: str, headers: List[List[str]]) -> Dict[str, Any]:
    if typ == "lifespan":
        return {"type": "lifespan", "asgi": {"version": "3.0"}, "state": {}}
    return {
        "type": typ, "asgi": {"version": "3.0"}, "http_version": "1.1",
        "scheme": "http" if typ == "http" else "ws", "path": "/p", "raw_path": b"/p",
        "query_string": b"", "root_path": "", "method": "GET",
        "headers": [(s2b(n), s2b(v)) for n, v in headers],
        "client": ("198.51.100.77", 5555), "server": ("10.1.1.1", 80),
        "extensions": {"x": {"nested": [1, 2]}}, "state": {},
    }


def _call_proxy(case: Dict[str, Any], headers: List[List[str]],
                mw: Any = None) -> Tuple[dict, dict, dict]:
    from hypercorn.middleware import ProxyFixMiddleware

    seen: Dict[str, Any] = {}

    async def app(scope: dict, receive: Any, send: Any) -> None:
        seen["scope"] = copy.deepcopy(scope)
        seen["same_callables"] = (receive, send)
        if case["app_mutates"] and scope["type"] != "lifespan":
            scope["headers"].append((b"x-mutated", b"1"))
            scope["client"] = ("0.0.0.0", 1)
            scope["extensions"]["x"]["nested"].append(3)

    scope = _make_scope(case["type"], headers)
    before = copy.deepcopy(scope)

    async def receive() -> dict:
        return {}

    async def send(m: dict) -> None:
        pass

    if mw is not None:
        mw.app = app  # the long-lived instance of a history, observed through this call's app
    else:
        mw = ProxyFixMiddleware(app, mode=case["mode"], trusted_hops=case["hops"])
    if case.get("warm"):
        earlier = _make_scope("http", [
            ["host", "earlier.example"], ["x-forwarded-for", "9.9.9.9, 8.8.8.8, 7.7.7.7, 5.5.5.5"],
            ["x-forwarded-proto", "wss, wss, wss, wss"],
            ["x-forwarded-host", "e1.test, e2.test, e3.test, e4.test"],
            ["forwarded", "for=9.9.9.9;host=e1.test;proto=wss, for=8.8.8.8;host=e2.test;proto=wss,"
                          " for=7.7.7.7;host=e3.test;proto=wss, for=5.5.5.5;host=e4.test;proto=wss"]])
        run_sync(mw(earlier, receive, send))
        seen.clear()
    try:
        run_sync(mw(scope, receive, send))
    except Violation:
        raise
    except Exception as e:  # whatever the headers carry, the request must reach the application
        raise Violation("proxyfix_raised", f"{e!r} for headers {headers}")
    if "scope" not in seen:
        raise Violation("proxyfix_app_not_called", "")
    if seen["same_callables"] != (receive, send):
        raise Violation("proxyfix_callables_replaced", "")
    return before, scope, seen["scope"]


def run_proxy(case: Dict[str, Any]) -> CaseInfo:
    before, after, down = _call_proxy(case, case["headers"])
    if after != before:
        raise Violation("caller_scope_mutated", f"before={before!r} after={after!r}")
    if case["type"] == "lifespan":
        if down != before:
            raise Violation("lifespan_scope_changed", "")
        return CaseInfo(False, ["lifespan"])
    model = proxy_model(case["mode"], case["hops"], case["headers"])
    want = copy.deepcopy(before)
    if model["client"] is not None:
        want["client"] = (model["client"], 0)
    if model["scheme"] is not None:
        want["scheme"] = model["scheme"]
    if model["host"] is not None:
        want["headers"] = [(n, v) for n, v in want["headers"] if n.lower() != b"host"]
        want["headers"].append((b"host", s2b(model["host"])))
    untouched = all(v is None for v in model.values())
    down_cmp = dict(down)
    if down_cmp != want:
        kind = "scope_not_left_untouched" if untouched else "trusted_value_wrong"
        diffs = {k: (down_cmp.get(k), want.get(k)) for k in want if down_cmp.get(k) != want.get(k)}
        raise Violation(kind, f"mode={case['mode']} hops={case['hops']} "
                        f"headers={case['headers']} diff(got, want)={diffs}", mode=case["mode"])
    classes = ["mode=" + case["mode"], f"hops={case['hops']}",
               "untouched" if untouched else "rewritten"]
    nontrivial = False
    if case["attacker"] and not untouched:
        # metamorphic: whatever a client prepends is never used
        names = {"legacy": ["x-forwarded-for", "x-forwarded-proto", "x-forwarded-host"],
                 "modern": ["forwarded"]}[case["mode"]]
        enough = all(len(_values(case["headers"], n)) >= case["hops"] or
                     len(_values(case["headers"], n)) == 0 for n in names)
        atk = [a for a in case["attacker"]
               if len(_values(case["headers"], a[0].lower())) >= case["hops"]]
        if atk:
            _, _, down2 = _call_proxy(case, atk + case["headers"])
            strip = lambda sc: {k: ([h for h in v if h[0].lower() not in
                                     {s2b(n) for n in names}] if k == "headers" else v)
                                for k, v in sc.items()}  # noqa: E731
            if strip(down2) != strip(down):
                raise Violation("attacker_prefix_used",
                                f"prefix {atk} changed the downstream scope: {strip(down2)} vs "
                                f"{strip(down)}", mode=case["mode"])
            classes.append("attacker_prefix")
            nontrivial = True
    return CaseInfo(nontrivial or (not untouched and case["hops"] >= 2), classes)


# --------------------------------------------------------------------------- Dispatcher routing

_seg = st.text(alphabet="abc/", min_size=0, max_size=5)


@st.composite
def dispatch_case(draw: Any) -> Dict[str, Any]:
    mounts = draw(st.lists(st.builds(lambda s: "/" + s, _seg), min_size=0, max_size=4, unique=True))
    path = "/" + draw(_seg)
    if mounts and draw(st.booleans()):
        path = draw(st.sampled_from(mounts)) + draw(_seg)
    warm = None
    if draw(st.booleans()):  # an earlier request through the same instance
        warm = "/" + draw(_seg)
        if mounts and draw(st.booleans()):
            warm = draw(st.sampled_from(mounts)) + draw(_seg)
    return {"mounts": mounts, "path": path, "warm": warm,
            "type": draw(st.sampled_from(["http", "http", "websocket"])),
            "variant": draw(st.sampled_from(["asyncio", "trio"]))}


def run_dispatch(case: Dict[str, Any]) -> CaseInfo:
    from hypercorn.middleware.dispatcher import (AsyncioDispatcherMiddleware,
                                                 TrioDispatcherMiddleware)

    calls: List[tuple] = []
    sent: List[dict] = []

    def make_app(name: str) -> Any:
        async def app(scope: dict, receive: Any, send: Any) -> None:
            calls.append((name, scope["path"], scope["type"]))
        return app

    mounts = {m: make_app(m) for m in case["mounts"]}
    cls = AsyncioDispatcherMiddleware if case["variant"] == "asyncio" else TrioDispatcherMiddleware
    mw = cls(mounts)
    scope = {"type": case["type"], "path": case["path"], "raw_path": s2b(case["path"]),
             "headers": [], "query_string": b"", "root_path": ""}

    async def receive() -> dict:
        return {}

    async def send(m: dict) -> None:
        sent.append(m)

    if case.get("warm") is not None:
        w = case["warm"]
        run_sync(mw({"type": "http", "path": w, "raw_path": s2b(w), "headers": [],
                     "query_string": b"", "root_path": ""}, receive, send))
        del calls[:], sent[:]
    run_sync(mw(scope, receive, send))
    match = next((m for m in case["mounts"] if case["path"].startswith(m)), None)
    if match is None:
        if calls:
            raise Violation("dispatch_unmatched_called", f"{case} -> {calls}")
        starts = [m for m in sent if m.get("type") == "http.response.start"]
        if len(starts) != 1 or starts[0].get("status") != 404:
            raise Violation("dispatch_no_404", f"{case} -> {sent}")
        return CaseInfo(len(case["mounts"]) >= 2, ["unmatched"])
    rest = case["path"][len(match):] or "/"
    if calls != [(match, rest, case["type"])]:
        raise Violation("dispatch_wrong_route", f"{case}: calls={calls}, want ({match!r}, {rest!r})")
    if sent:
        raise Violation("dispatch_sent_on_match", f"{sent}")
    if calls[0][1] == "":
        raise Violation("dispatch_empty_path", f"{case}")
    nmatch = sum(1 for m in case["mounts"] if case["path"].startswith(m))
    return CaseInfo(len(case["mounts"]) >= 2,
                    ["matched", "overlapping" if nmatch > 1 else "single_match"])


# --------------------------------------------------------------------------- Dispatcher lifespan


@st.composite
def lifespan_case(draw: Any) -> Dict[str, Any]:
    n = draw(st.integers(1, 4))
    mounts = []
    for i in range(n):
        mounts.append({
            "startup_delay": draw(st.integers(0, 3)),
            # True: completes; False: never answers; "failed": says lifespan.startup.failed
            "startup_completes": draw(st.sampled_from([True, True, True, True, False, "failed"])),
            "shutdown_delay": draw(st.integers(0, 3)),
            "shutdown_completes": draw(st.sampled_from([True, True, True, True, False, "failed"])),
        })
    return {"mounts": mounts, "variant": draw(st.sampled_from(["asyncio", "trio"]))}


def run_lifespan(case: Dict[str, Any]) -> CaseInfo:
    from hypercorn.middleware.dispatcher import (AsyncioDispatcherMiddleware,
                                                 TrioDispatcherMiddleware)

    variant = case["variant"]
    state = {"startup_done": set(), "shutdown_done": set()}
    upstream: List[tuple] = []

    def make_app(i: int, spec: dict) -> Any:
        async def app(scope: dict, receive: Any, send: Any) -> None:
            m = await receive()
            assert m["type"] == "lifespan.startup", m
            await _sleep_steps(variant, spec["startup_delay"])
            if not spec["startup_completes"]:
                await _block_forever(variant)
            if spec["startup_completes"] == "failed":
                await send({"type": "lifespan.startup.failed", "message": "scripted"})
                return
            state["startup_done"].add(i)
            await send({"type": "lifespan.startup.complete"})
            m = await receive()
            assert m["type"] == "lifespan.shutdown", m
            await _sleep_steps(variant, spec["shutdown_delay"])
            if not spec["shutdown_completes"]:
                await _block_forever(variant)
            if spec["shutdown_completes"] == "failed":
                await send({"type": "lifespan.shutdown.failed", "message": "scripted"})
                return
            state["shutdown_done"].add(i)
            await send({"type": "lifespan.shutdown.complete"})
        return app

    mounts = {f"/m{i}": make_app(i, s) for i, s in enumerate(case["mounts"])}
    n = len(mounts)

    async def up_send(m: dict) -> None:
        upstream.append((m["type"], set(state["startup_done"]), set(state["shutdown_done"])))

    all_start = all(s["startup_completes"] is True for s in case["mounts"])
    all_stop = all_start and all(s["shutdown_completes"] is True for s in case["mounts"])

    if variant == "asyncio":
        import asyncio

        from sim.aio import VirtualLoop, _teardown

        loop = VirtualLoop()
        try:
            async def main() -> None:
                q: asyncio.Queue = asyncio.Queue()
                mw = AsyncioDispatcherMiddleware(mounts)
                task = loop.create_task(mw({"type": "lifespan"}, q.get, up_send))
                await q.put({"type": "lifespan.startup"})
                await loop.run_until(loop.time() + 100)
                if all_start:
                    await q.put({"type": "lifespan.shutdown"})
                    await loop.run_until(loop.time() + 100)
                if task.done() and task.exception() is not None:
                    raise Violation("lifespan_middleware_raised", repr(task.exception()))

            import warnings
            with warnings.catch_warnings():
                warnings.simplefilter("ignore")
                loop.run_until_complete(main())
            _teardown(loop)
        finally:
            loop.close()
    else:
        import trio
        import trio.testing

        async def main_trio() -> None:
            snd, rcv = trio.open_memory_channel(10)
            mw = TrioDispatcherMiddleware(mounts)
            async with trio.open_nursery() as nursery:
                nursery.start_soon(mw, {"type": "lifespan"}, rcv.receive, up_send)
                await snd.send({"type": "lifespan.startup"})
                await trio.sleep(100)
                if all_start:
                    await snd.send({"type": "lifespan.shutdown"})
                    await trio.sleep(100)
                nursery.cancel_scope.cancel()

        trio.run(main_trio, clock=trio.testing.MockClock(autojump_threshold=0))

    starts = [u for u in upstream if u[0] == "lifespan.startup.complete"]
    stops = [u for u in upstream if u[0] == "lifespan.shutdown.complete"]
    full = set(range(n))
    if len(starts) != (1 if all_start else 0):
        raise Violation("lifespan_startup_fanout", f"{len(starts)} upstream startup.complete "
                        f"with mounts {case['mounts']}", variant=variant)
    if starts and starts[0][1] != full:
        raise Violation("lifespan_startup_early", f"sent when only {starts[0][1]} had completed",
                        variant=variant)
    if len(stops) != (1 if all_stop else 0):
        raise Violation("lifespan_shutdown_fanout", f"{len(stops)} upstream shutdown.complete "
                        f"with mounts {case['mounts']}", variant=variant)
    if stops and stops[0][2] != full:
        raise Violation("lifespan_shutdown_early", f"sent when only {stops[0][2]} had completed",
                        variant=variant)
    return CaseInfo(n >= 2, [f"mounts={n}", "variant=" + variant,
                             "all_complete" if all_stop else "some_hang_or_fail"]
                    + (["a_mount_failed"] if any("failed" in (m["startup_completes"],
                                                              m["shutdown_completes"])
                                                 for m in case["mounts"]) else []))


async def _sleep_steps(variant: str, k: int) -> None:
    if variant == "asyncio":
        import asyncio

        for _ in range(k):
            await asyncio.sleep(0.01)
    else:
        import trio

        for _ in range(k):
            await trio.sleep(0.01)


async def _block_forever(variant: str) -> None:
    if variant == "asyncio":
        import asyncio

        await asyncio.Event().wait()
    else:
        import trio

        await trio.sleep_forever()


# --------------------------------------------------------------------------- HTTPS redirect


@st.composite
def redirect_case(draw: Any) -> Dict[str, Any]:
    """1..3 requests through ONE middleware instance (as in a running server)."""
    config_host = draw(st.one_of(st.none(), st.sampled_from(["secure.example", "s:8443"])))
    reqs = [draw(redirect_request()) for _ in range(draw(st.integers(1, 3)))]
    for r in reqs:
        r["config_host"] = config_host
    return {"config_host": config_host, "requests": reqs}


@st.composite
def redirect_request(draw: Any) -> Dict[str, Any]:
    typ = draw(st.sampled_from(["http", "websocket"]))
    secure = draw(st.sampled_from([False, False, True]))
    segs = draw(st.lists(st.text(alphabet="abcXYZ019-._~%2F", min_size=0, max_size=6), max_size=3))
    return {
        "type": typ, "secure": secure,
        "http_version": draw(st.sampled_from(["1.1", "1.1", "2"])),
        "raw_path": "/" + "/".join(segs),
        "query": draw(st.one_of(st.just(""), st.text(alphabet="abc=&%201+", max_size=10))),
        "root_path": draw(st.sampled_from(["", "", "/api", "/a/b"])),
        "host_header": draw(st.one_of(st.none(), st.sampled_from(
            ["example.com", "localhost:8080", "[::1]:80", "hé.test", "other.example"]))),
        "ws_ext": draw(st.booleans()),
        "extra_headers": draw(st.lists(st.sampled_from([["accept", "*/*"], ["x-host", "nope"]]),
                                       max_size=2)),
    }


def run_redirect(case: Dict[str, Any]) -> CaseInfo:
    from hypercorn.middleware import HTTPToHTTPSRedirectMiddleware

    calls: List[tuple] = []

    async def app(sc: dict, receive: Any, send: Any) -> None:
        calls.append((sc, receive, send))

    reqs = case.get("requests") or [case]
    mw = HTTPToHTTPSRedirectMiddleware(app, case["config_host"])
    nontrivial, classes = False, [f"requests={len(reqs)}"]
    for r in reqs:
        del calls[:]
        info = redirect_one(mw, r, calls)
        nontrivial = nontrivial or info.nontrivial
        classes += info.classes
    hosts = {r["host_header"] for r in reqs if not r["secure"]}
    if len(hosts) > 1 and case["config_host"] is None:
        classes.append("hosts_differ")
        nontrivial = True
    return CaseInfo(nontrivial, classes, evals=len(reqs))


def redirect_one(mw: Any, case: Dict[str, Any], calls: List[tuple]) -> CaseInfo:
    typ = case["type"]
    scheme = {("http", False): "http", ("http", True): "https",
              ("websocket", False): "ws", ("websocket", True): "wss"}[(typ, case["secure"])]
    headers = [(s2b(n), s2b(v)) for n, v in case["extra_headers"]]
    if case["host_header"] is not None:
        headers.insert(len(headers) // 2, (b"host", s2b(case["host_header"])))
    scope: Dict[str, Any] = {
        "type": typ, "scheme": scheme, "http_version": case["http_version"],
        # as the server builds it: path is the percent-decoded form of raw_path
        "path": urllib.parse.unquote(case["raw_path"]), "raw_path": s2b(case["raw_path"]),
        "query_string": s2b(case["query"]), "root_path": case["root_path"], "headers": headers,
        "extensions": {"websocket.http.response": {}} if (typ == "websocket" and case["ws_ext"])
        else {},
    }
    before = copy.deepcopy(scope)
    sent: List[dict] = []

    async def receive() -> dict:
        return {}

    async def send(m: dict) -> None:
        sent.append(m)

    host = case["config_host"] if case["config_host"] is not None else case["host_header"]
    if not case["secure"] and host is None and (typ == "http" or case["ws_ext"]):
        try:
            run_sync(mw(scope, receive, send))
        except ValueError:
            return CaseInfo(False, ["no_host"])
        if calls:
            raise Violation("redirect_cleartext_passed", f"{case}")
        return CaseInfo(False, ["no_host"])
    try:
        run_sync(mw(scope, receive, send))
    except Violation:
        raise
    except Exception as e:  # a well-formed scope with a host: nothing here may raise
        raise Violation("redirect_raised", f"{e!r} for {case}")
    if case["secure"]:
        if len(calls) != 1 or calls[0][0] is not scope or calls[0][1] is not receive \
                or calls[0][2] is not send or scope != before or sent:
            raise Violation("secure_not_passed_through", f"{case}: calls={len(calls)} sent={sent}")
        return CaseInfo(False, ["secure"])
    if calls:
        raise Violation("redirect_cleartext_passed", f"{case}")
    if typ == "websocket" and not case["ws_ext"]:
        if [m.get("type") for m in sent] != ["websocket.close"]:
            raise Violation("ws_close_expected", f"{sent}")
        return CaseInfo(True, ["ws_close"])
    prefix = "http.response" if typ == "http" else "websocket.http.response"
    types = [m.get("type") for m in sent]
    if types != [prefix + ".start", prefix + ".body"]:
        raise Violation("redirect_messages", f"{types}")
    start = sent[0]
    if start.get("status") != 307:
        raise Violation("redirect_status", f"{start}")
    if sent[1].get("more_body") or sent[1].get("body", b""):
        raise Violation("redirect_body", f"{sent[1]}")
    locs = [v for n, v in start.get("headers", []) if n == b"location"]
    target_scheme = "https" if typ == "http" or case["http_version"] == "2" else "wss"
    want = f"{target_scheme}://{host}{case['root_path']}{case['raw_path']}"
    if case["query"]:
        want += "?" + case["query"]
    if len(locs) != 1 or locs[0] != want.encode():
        raise Violation("redirect_location", f"{case}: got {locs} want {want!r}", type=typ)
    return CaseInfo(bool(case["query"] or case["root_path"]),
                    ["redirect_" + typ, "scheme=" + target_scheme])


# --------------------------------------------------------------------------- stateful machine
# One long-lived instance of each middleware, as in a running server, driven through a generated
# HISTORY of requests (Hypothesis rule-based state machine: rules are requests, the history
# shrinks as one value). The oracle is stateless - every single call must come out exactly as
# it would on a fresh instance - so anything a middleware carries over between calls shows.


def history_step(step: Dict[str, Any], insts: Dict[str, Any]) -> None:
    kind = step["kind"]
    if kind == "redirect":
        calls = insts["redirect_calls"]
        del calls[:]
        redirect_one(insts["redirect"], step["req"], calls)
    elif kind == "proxy":
        case = step["case"]
        before, after, down = _call_proxy(dict(case, warm=False), case["headers"],
                                          mw=insts["proxy"][(case["mode"], case["hops"])])
        if after != before:
            raise Violation("caller_scope_mutated", f"{before!r} -> {after!r}")
        if case["type"] == "lifespan":
            return
        model = proxy_model(case["mode"], case["hops"], case["headers"])
        want = copy.deepcopy(before)
        if model["client"] is not None:
            want["client"] = (model["client"], 0)
        if model["scheme"] is not None:
            want["scheme"] = model["scheme"]
        if model["host"] is not None:
            want["headers"] = [(n, v) for n, v in want["headers"] if n.lower() != b"host"]
            want["headers"].append((b"host", s2b(model["host"])))
        if dict(down) != want:
            raise Violation("trusted_value_wrong", f"in a history: mode={case['mode']} "
                            f"hops={case['hops']} headers={case['headers']}: got "
                            f"{ {k: down.get(k) for k in ('client', 'scheme')} }", mode=case["mode"])


def run_history(case: Dict[str, Any]) -> CaseInfo:
    """Replays a history found by the machine (plain code, no Hypothesis)."""
    insts = new_instances(case["config_host"])
    for step in case["steps"]:
        history_step(step, insts)
    return CaseInfo(len(case["steps"]) >= 2, [f"steps={len(case['steps'])}"],
                    evals=len(case["steps"]))


def new_instances(config_host: Optional[str]) -> Dict[str, Any]:
    from hypercorn.middleware import HTTPToHTTPSRedirectMiddleware, ProxyFixMiddleware

    calls: List[tuple] = []

    async def app(sc: dict, receive: Any, send: Any) -> None:
        calls.append((sc, receive, send))

    async def sink(scope: dict, receive: Any, send: Any) -> None:
        return None

    return {"redirect": HTTPToHTTPSRedirectMiddleware(app, config_host), "redirect_calls": calls,
            "proxy": {(m, h): ProxyFixMiddleware(sink, mode=m, trusted_hops=h)
                      for m in ("legacy", "modern") for h in range(0, 5)}}


def run_machine(case: Dict[str, Any]) -> CaseInfo:
    import hypothesis
    from hypothesis import HealthCheck, Phase, Verbosity, settings
    from hypothesis.stateful import RuleBasedStateMachine, initialize, rule, run_state_machine_as_test

    stats = {"steps": 0, "histories": 0, "long": 0}

    class MiddlewareHistories(RuleBasedStateMachine):
        def __init__(self) -> None:
            super().__init__()
            self.history: List[Dict[str, Any]] = []
            self.config_host: Optional[str] = None
            self.insts: Dict[str, Any] = {}
            stats["histories"] += 1

        @initialize(config_host=st.one_of(st.none(), st.sampled_from(["secure.example", "s:8443"])))
        def start(self, config_host: Optional[str]) -> None:
            self.config_host = config_host
            self.insts = new_instances(config_host)

        def _do(self, step: Dict[str, Any]) -> None:
            self.history.append(step)
            stats["steps"] += 1
            if len(self.history) == 4:
                stats["long"] += 1
            try:
                history_step(step, self.insts)
            except Violation as v:
                v.replay_case = {"config_host": self.config_host,  # type: ignore
                                 "steps": list(self.history)}
                v.replay_part = "history"  # type: ignore
                raise

        @rule(req=redirect_request())
        def redirect(self, req: Dict[str, Any]) -> None:
            req = dict(req, config_host=self.config_host)
            self._do({"kind": "redirect", "req": req})

        @rule(case=proxy_case())
        def proxy(self, case: Dict[str, Any]) -> None:
            self._do({"kind": "proxy", "case": dict(case, attacker=[], warm=False)})

    machine = hypothesis.seed(case["seed"])(MiddlewareHistories)
    run_state_machine_as_test(machine, settings=settings(
        max_examples=case["examples"], stateful_step_count=12, deadline=None, database=None,
        report_multiple_bugs=False, suppress_health_check=list(HealthCheck),
        phases=[Phase.generate, Phase.shrink], verbosity=Verbosity.quiet, print_blob=False))
    return CaseInfo(True, [f"histories~{stats['histories']}", f"steps~{stats['steps'] // 100}00",
                           f"histories_of_4+~{stats['long']}"], evals=stats["steps"])


def enumerate_machines(tier: str) -> Any:
    n, examples = (8, 60) if tier == "quick" else (32, 1500)
    for i in range(n):
        yield {"kind": "machine", "seed": int(os.environ.get("VERIF_SEED", "1")) * 1000 + i,
               "examples": examples}


def parts() -> List[Part]:
    return [
        Part("machine", run_machine, enumerate=enumerate_machines, max_shards=16,
             rule="Hypothesis rule-based state machine: histories of up to 12 requests through "
                  "one long-lived instance of the redirect middleware and of ProxyFix (every "
                  "mode/hops), each call judged against the stateless model"),
        Part("history", run_history, enumerate=lambda tier: iter(()),
             rule="(replay only) a history found by the machine, re-run without Hypothesis"),
        Part("proxy_fix", run_proxy, strategy=proxy_case, quick=4000, thorough=120000,
             rule="forwarding headers x hops x mode x attacker prefix"),
        Part("dispatch", run_dispatch, strategy=dispatch_case, quick=2000, thorough=60000,
             rule="ordered mount tables x paths, both variants"),
        Part("dispatch_lifespan", run_lifespan, strategy=lifespan_case, quick=600, thorough=20000,
             rule="1..4 mounts with scripted completion delays / hangs, both variants"),
        Part("redirect", run_redirect, strategy=redirect_case, quick=2000, thorough=60000,
             rule="scope kinds x secure/cleartext x host sources x root_path x raw_path x query"),
    ]
