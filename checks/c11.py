"""C11 - WebSocket handshake validation and lifecycle mapping."""
from __future__ import annotations

from typing import Any, Dict, List, Optional

from hypothesis import strategies as st

from gen.http import segmentation
from gen.wsdrive import WSSession
from sim.run import BACKENDS, run_sim
from vlib.core import CaseInfo, Part, Violation
from wire.h1 import b2s, s2b
from wire.ws import (accept_token, assemble_messages, close_frame, make_key,
                     parse_server_frames)

PROPERTY = "C11"
LEVEL = "exploration"
RULE = (
    "handshake header combinations (method, HTTP version, Upgrade / Connection token forms, key, "
    "version, subprotocol and extension offers; HTTP/2 CONNECT with/without :protocol and "
    "version) x application decisions (accept with/without offered or un-offered subprotocol "
    "and extra headers, close, HTTP response extension, crash) x closing orders (client first "
    "with/without code, server first, simultaneous, abrupt); oracle = validity model, own SHA-1 "
    "accept token, close-code table; non-trivial = non-canonical handshake or a decision other "
    "than plain accept"
)
ASSUMPTIONS = [
    "requests lacking the Upgrade: websocket / Connection: upgrade / GET routing tokens are "
    "ordinary HTTP: any handling is accepted except a websocket scope",
    "simultaneous close: the application may see 1000 or the client's code",
]
T_BIG = 100000.0


@st.composite
def handshake(draw: Any, carrier: str) -> Dict[str, Any]:
    canonical = draw(st.integers(0, 2)) > 0
    hs: Dict[str, Any] = {
        "subprotocols": draw(st.sampled_from([None, None, "chat", "chat, superchat", "a,b , c"])),
        "extensions": draw(st.sampled_from([None, None, "permessage-deflate",
                                            "permessage-deflate; client_max_window_bits"])),
        "headers": draw(st.lists(st.sampled_from([["Origin", "http://o"], ["X-Extra", "1"],
                                                  ["Cookie", "a=b"]]), max_size=2)),
        "version": "13",
    }
    if carrier == "h1":
        hs.update({"method": "GET", "http_version": "1.1", "upgrade": "websocket",
                   "connection": "Upgrade", "has_key": True})
        if not canonical:
            which = draw(st.sampled_from(["upgrade", "connection", "key", "version", "method",
                                          "http_version", "case"]))
            if which == "upgrade":
                hs["upgrade"] = draw(st.sampled_from(["WebSocket", "WEBSOCKET", None, "websockets",
                                                      "web socket"]))
            elif which == "connection":
                hs["connection"] = draw(st.sampled_from(
                    ["upgrade", "UPGRADE", "keep-alive, Upgrade", "Upgrade, keep-alive",
                     "keep-alive,upgrade", None, "close", "keep-alive", "upgraded"]))
            elif which == "key":
                hs["has_key"] = False
            elif which == "version":
                hs["version"] = draw(st.sampled_from([None, "12", "8", "14", "1"]))
            elif which == "method":
                hs["method"] = draw(st.sampled_from(["POST", "PUT", "HEAD"]))
            elif which == "http_version":
                hs["http_version"] = "1.0"
            else:
                hs["upgrade"] = "WebSocket"
                hs["connection"] = "keep-alive, UPGRADE"
    else:
        hs.update({"method": "CONNECT", "protocol": "websocket"})
        if not canonical:
            which = draw(st.sampled_from(["version", "protocol", "method"]))
            if which == "version":
                hs["version"] = draw(st.sampled_from([None, "12", "8"]))
            elif which == "protocol":
                # known finding C11-1: with version 13 such a CONNECT is taken for a WebSocket;
                # excluded by construction (the version is made invalid too) and counted
                hs["protocol"] = draw(st.sampled_from([None, "webtransport"]))
                hs["version"] = draw(st.sampled_from([None, "12"]))
                hs["adjusted"] = "connect_protocol"
            else:
                hs["method"] = "GET"
    return hs


@st.composite
def case_strategy(draw: Any, carrier: str) -> Dict[str, Any]:
    hs = draw(handshake(carrier))
    decision = draw(st.sampled_from(["accept", "accept", "accept", "close", "http", "crash"]))
    app: Dict[str, Any] = {"decision": decision}
    if decision == "accept":
        offered = [t.strip() for t in (hs["subprotocols"] or "").split(",") if t.strip()]
        choice = draw(st.sampled_from(["none", "none", "offered", "unoffered"]))
        if choice == "offered" and offered:
            app["subprotocol"] = draw(st.sampled_from(offered))
        elif choice == "unoffered":
            app["subprotocol"] = "zzz"
        app["headers"] = draw(st.lists(st.sampled_from([["x-app", "1"], ["x-b", ""],
                                                        ["set-cookie", "s=1"]]), max_size=2))
        app["closing"] = draw(st.sampled_from(
            ["client_first", "client_first", "server_first", "simultaneous", "abrupt_eof",
             "abrupt_reset"] + (["simultaneous_stalled"] * 2 if carrier == "h2" else
                                ["client_first_drop", "client_first_eof"])))
        # how an abruptly lost peer shows on the socket (reset, no route, time-out, ...)
        app["reset_how"] = draw(st.sampled_from(["reset", "reset", "unreach", "netdown",
                                                 "timedout", "aborted"]))
        app["client_code"] = draw(st.sampled_from([1000, 1001, 3001, 4999, None]))
        app["server_code"] = draw(st.sampled_from([1000, 1001, 3000, 4000]))
    elif decision == "http":
        app["status"] = draw(st.sampled_from([200, 401, 403, 404, 503, 204]))
        app["headers"] = draw(st.lists(st.sampled_from([["x-app", "1"], ["content-type", "t/p"],
                                                        ["www-authenticate", "Basic"]]),
                                       max_size=2))
        app["chunks"] = draw(st.lists(st.text(alphabet="denied!\n", max_size=8), max_size=3))
    prior = draw(st.sampled_from([0, 0, 0, 1, 2])) if carrier == "h1" else 0
    # ASGI types header lists as Iterable: applications hand over tuples, one-shot iterators ...
    app["headers_as"] = draw(st.sampled_from(["list", "list", "tuple", "lists", "iter",
                                              "generator", "map"]))
    # server_names configured and the handshake addressed to another name: 404, no application
    other_name = draw(st.sampled_from([False] * 7 + [True]))
    if other_name:
        prior = 0
    return {"carrier": carrier, "sched": draw(st.integers(0, 999)), "handshake": hs, "app": app,
            "seg": draw(segmentation()), "other_name": other_name,
            # ordinary requests served on the connection before the handshake, and the
            # per-connection request maximum (the handshake may be the last request allowed)
            "prior": prior,
            "kamax": draw(st.sampled_from([1000, 1000, prior + 1, prior + 2])),
            # header names reach the handshake code as the client spelt them
            "raw_headers": draw(st.booleans()) if carrier == "h1" else False}


def is_valid(carrier: str, hs: Dict[str, Any]) -> bool:
    if carrier == "h1":
        conn_tokens = [t.strip().lower() for t in (hs["connection"] or "").split(",")]
        return (hs["method"] == "GET" and hs["http_version"] == "1.1"
                and (hs["upgrade"] or "").lower() == "websocket" and "upgrade" in conn_tokens
                and hs["has_key"] and hs["version"] == "13")
    return hs["method"] == "CONNECT" and hs.get("protocol") == "websocket" and hs["version"] == "13"


def is_routed_as_websocket(carrier: str, hs: Dict[str, Any]) -> bool:
    """Recognisable as a WebSocket upgrade attempt (then an invalid one must get 400)."""
    if carrier == "h1":
        conn_tokens = [t.strip().lower() for t in (hs["connection"] or "").split(",")]
        return (hs["method"].upper() == "GET" and (hs["upgrade"] or "").lower() == "websocket"
                and "upgrade" in conn_tokens)
    return hs["method"] == "CONNECT" and hs.get("protocol") == "websocket"


def app_program(case: Dict[str, Any]) -> list:
    a = case["app"]
    d = a["decision"]
    if d == "crash":
        return [["recv"], ["raise", "ValueError"]]
    if d == "close":
        return [["recv"], ["send", {"type": "websocket.close"}], ["ws_loop"]]
    if d == "http":
        prog: list = [["recv"], ["send", {"type": "websocket.http.response.start",
                                          "status": a["status"], "headers": a["headers"],
                                          "$headers_as": a.get("headers_as", "list")}]]
        for c in a["chunks"]:
            prog.append(["send", {"type": "websocket.http.response.body", "body": c,
                                  "more_body": True}])
        prog.append(["send", {"type": "websocket.http.response.body", "body": "",
                              "more_body": False}])
        prog.append(["ws_loop"])
        return prog
    msg: Dict[str, Any] = {"type": "websocket.accept", "headers": a["headers"],
                           "$headers_as": a.get("headers_as", "list")}
    if "subprotocol" in a:
        msg["subprotocol"] = a["subprotocol"]
    prog = [["recv"], ["send", msg]]
    if a["closing"] in ("server_first", "simultaneous", "simultaneous_stalled"):
        prog += [["sleep", 1.0], ["send", {"type": "websocket.close", "code": a["server_code"]}]]
    prog.append(["ws_loop"])
    return prog


async def scenario(env: Any, case: Dict[str, Any]) -> Any:
    hs = dict(case["handshake"])
    carrier = case["carrier"]
    stalled = case["app"].get("closing") == "simultaneous_stalled"
    # a zero flow-control window keeps the server's close frame (and the send that carries it)
    # waiting while the client's own close arrives
    ws = WSSession(env, carrier, seg=case["seg"], h2_settings={4: 0} if stalled else None)
    kw: Dict[str, Any] = {"subprotocols": hs["subprotocols"], "extensions": hs["extensions"],
                          "headers": hs["headers"], "version": hs["version"],
                          "method": hs["method"]}
    if carrier == "h1":
        kw.update({"http_version": hs["http_version"], "upgrade": hs["upgrade"],
                   "connection": hs["connection"],
                   "key": make_key(7) if hs["has_key"] else None,
                   "prior": case.get("prior", 0)})
    else:
        kw["protocol"] = hs.get("protocol")
    status = await ws.open(**kw)
    out = {"ws": ws, "status": status}
    a = case["app"]
    if a["decision"] == "accept" and status in (101, 200) and is_valid(carrier, hs):
        closing = a["closing"]
        if closing == "client_first":
            await env.sleep(0.5)
            await ws.send(close_frame(a["client_code"]))
        elif closing in ("client_first_drop", "client_first_eof"):
            # the client says why it leaves and is gone before the echo can reach it: still a
            # client-initiated close, with the client's code
            await env.sleep(0.5)
            if closing == "client_first_drop":
                # the close frame arrives; the echo can not be written (and the failing send
                # reports one of the errors a lost peer shows as)
                ws.conn.fail_writes(0, a.get("reset_how", "pipe"))
            ws.conn.send(close_frame(a["client_code"]))
            if closing == "client_first_eof":
                ws.conn.eof()
        elif closing == "server_first":
            await env.sleep(2.0)
            await ws.pump()
            await ws.send(close_frame(a["server_code"]))  # the echo a client owes
        elif closing == "simultaneous":
            await env.sleep(1.0)
            await ws.send(close_frame(a["client_code"]))
        elif closing == "simultaneous_stalled":
            await env.sleep(2.0)
            await ws.send(close_frame(a["client_code"]))
        elif closing == "abrupt_eof":
            await env.sleep(0.5)
            ws.conn.eof()
        else:
            await env.sleep(0.5)
            ws.conn.reset(a.get("reset_how", "reset"))
        await env.settle(50.0)
        await ws.pump()
    await env.settle(50.0)
    if not ws.conn.server_gone:
        ws.conn.eof()
    await env.settle(50.0)
    return out


def judge(case: Dict[str, Any], obs: Any) -> None:
    be = obs.backend
    if obs.spin:
        raise Violation("spin", obs.spin, backend=be)
    val = obs.value
    ws: WSSession = val["ws"]
    carrier = case["carrier"]
    hs = case["handshake"]
    a = case["app"]
    if ws.conn.handler_exc is not None:
        raise Violation("handler_exception", repr(ws.conn.handler_exc), backend=be)
    if carrier == "h2" and not getattr(ws, "connect_protocol_announced", True):
        raise Violation("extended_connect_not_announced", "the server's SETTINGS lack "
                        "ENABLE_CONNECT_PROTOCOL = 1: no conforming client would attempt a "
                        "WebSocket over this HTTP/2 connection (RFC 8441 3)", backend=be)
    ws_insts = [i for i in obs.instances if i.scope.get("type") == "websocket"]
    instances = [i for i in obs.instances if i.scope.get("path") != "/prior"]
    if len(obs.instances) - len(instances) != case.get("prior", 0):
        raise Violation("harness", f"{case.get('prior')} earlier requests, "
                        f"{len(obs.instances) - len(instances)} served")
    valid = is_valid(carrier, hs)
    status = val["status"]
    if case.get("other_name"):
        if obs.instances:
            raise Violation("app_started_for_unknown_host", f"server_names does not list the "
                            f"host of the handshake; scopes {[i.scope.get('type') for i in obs.instances]}",
                            backend=be, carrier=carrier)
        if valid and status != 404:
            raise Violation("unknown_host_not_404", f"valid handshake for a name not served "
                            f"answered {status}", backend=be, carrier=carrier)
        if status == 101 or (carrier == "h2" and status == 200):
            raise Violation("upgrade_without_handshake", f"{hs} -> {status}", backend=be)
        return
    if not valid:
        if ws_insts and carrier == "h2" and hs["method"] == "CONNECT" \
                and hs.get("protocol") != "websocket" and hs["version"] == "13":
            raise Violation("connect_without_websocket_protocol_accepted",
                            f"CONNECT with :protocol {hs.get('protocol')!r} started a websocket "
                            f"application", backend=be)
        if ws_insts:
            raise Violation("websocket_scope_for_invalid_handshake",
                            f"handshake {hs} started a websocket application", backend=be,
                            carrier=carrier)
        if is_routed_as_websocket(carrier, hs):
            if status != 400:
                raise Violation("invalid_handshake_not_400", f"handshake {hs} answered {status}",
                                backend=be, carrier=carrier)
            if instances:
                raise Violation("app_started_for_invalid_handshake", f"{hs}", backend=be)
        elif status in (101,) or (carrier == "h2" and status == 200 and ws_insts):
            raise Violation("upgrade_without_handshake", f"{hs} -> {status}", backend=be)
        return
    if len(ws_insts) != 1 or len(instances) != 1:
        raise Violation("instance_count", f"valid handshake: {len(ws_insts)} websocket instances "
                        f"of {len(instances)}", backend=be)
    inst = ws_insts[0]
    if not inst.received or inst.received[0]["type"] != "websocket.connect":
        raise Violation("first_message", f"{[m['type'] for m in inst.received]}", backend=be)
    offered = [t.strip() for t in (hs["subprotocols"] or "").split(",") if t.strip()]
    if list(inst.scope_copy.get("subprotocols", [])) != offered:
        raise Violation("scope_subprotocols", f"{inst.scope_copy.get('subprotocols')} != "
                        f"{offered}", backend=be)
    d = a["decision"]
    hdrs = ws.headers
    names = [n for n, _ in hdrs]
    if d == "crash":
        if status != 500:
            raise Violation("crash_not_500", f"status {status}", backend=be)
        return
    if d == "close":
        if status != 403:
            raise Violation("close_not_403", f"status {status}", backend=be)
        return
    if d == "http":
        if status != a["status"]:
            raise Violation("http_response_status", f"{status} != {a['status']}", backend=be)
        want = [(s2b(n), s2b(v)) for n, v in a["headers"]]
        if hdrs[:len(want)] != want:
            raise Violation("http_response_headers", f"{hdrs} !~ {want}", backend=be)
        want_body = b"" if a["status"] in (204, 304) else "".join(a["chunks"]).encode()
        if carrier == "h1":
            body = ws.response_body
            if not getattr(ws, "h1_response").complete:
                raise Violation("http_response_incomplete", "", backend=be)
        else:
            body = ws.server_bytes()
            if not ws.stream_state()["ended"]:
                raise Violation("http_response_incomplete", "no END_STREAM", backend=be)
        if body != want_body:
            raise Violation("http_response_body", f"{body!r} != {want_body!r}", backend=be)
        return
    # ---- accept
    sub = a.get("subprotocol")
    if sub is not None and sub not in offered:
        # an un-offered subprotocol must never be confirmed to the client
        if status in (101, 200) and (b"sec-websocket-protocol", sub.encode()) in hdrs:
            raise Violation("unoffered_subprotocol_echoed", f"{hdrs}", backend=be)
        return
    want_status = 101 if carrier == "h1" else 200
    if status != want_status:
        raise Violation("accept_status", f"{status} != {want_status}", backend=be)
    if carrier == "h1":
        # RFC 6455 4.2.2: the 101 carries "Upgrade: websocket" and "Connection: Upgrade"; a
        # 101 that also announces "close" is no handshake a client can complete
        up = [v.strip().lower() for n, v in hdrs if n == b"upgrade"]
        tokens = [t.strip().lower() for n, v in hdrs if n == b"connection" for t in v.split(b",")]
        if up != [b"websocket"] or b"upgrade" not in tokens or b"close" in tokens:
            raise Violation("accept_switch_headers", f"upgrade={up} connection={tokens} "
                            f"(request {case.get('prior', 0) + 1} of at most "
                            f"{case.get('kamax')} on the connection)", backend=be)
        tok = [v for n, v in hdrs if n == b"sec-websocket-accept"]
        if tok != [accept_token(make_key(7))]:
            raise Violation("accept_token", f"{tok} != {accept_token(make_key(7))}", backend=be)
    protos = [v for n, v in hdrs if n == b"sec-websocket-protocol"]
    if protos != ([sub.encode()] if sub is not None else []):
        raise Violation("subprotocol_header", f"{protos} for choice {sub!r}", backend=be)
    for n, v in a["headers"]:
        if (s2b(n), s2b(v)) not in hdrs:
            raise Violation("accept_extra_header_missing", f"{n}: {v} not in {hdrs}", backend=be)
    exts = [v for n, v in hdrs if n == b"sec-websocket-extensions"]
    if exts and not hs["extensions"]:
        raise Violation("extension_not_offered", f"{exts}", backend=be)
    # ---- lifecycle: the disconnect code
    discs = [m for m in inst.received if m["type"] == "websocket.disconnect"]
    if len(discs) != 1:
        raise Violation("disconnect_count", f"{len(discs)} disconnect messages", backend=be)
    code = discs[0].get("code")
    closing = a["closing"]
    cc = a["client_code"] if a["client_code"] is not None else 1005
    if closing in ("client_first", "client_first_drop", "client_first_eof"):
        want_codes = [cc]
    elif closing == "server_first":
        want_codes = [1000]
    elif closing in ("simultaneous", "simultaneous_stalled"):
        want_codes = [1000, cc]
    else:
        want_codes = [1006]
    if code not in want_codes:
        raise Violation("disconnect_code", f"closing order {closing}: application saw code "
                        f"{code}, expected {want_codes}", backend=be, closing=closing)
    # ---- what the client saw
    if closing in ("client_first", "server_first", "simultaneous"):
        frames, _, err = parse_server_frames(ws.server_bytes())
        if err:
            raise Violation("server_frames_malformed", err, backend=be)
        events, err = assemble_messages(frames)
        closes = [e for e in events if e["kind"] == "close"]
        if len(closes) != 1:
            raise Violation("close_frame_count", f"{closes}", backend=be, closing=closing)
        if closing == "client_first" and closes[0]["code"] not in (a["client_code"], None, 1000) \
                and a["client_code"] is not None:
            raise Violation("close_echo_code", f"{closes} for client code {a['client_code']}",
                            backend=be)
        if closing == "server_first" and closes[0]["code"] != a["server_code"]:
            raise Violation("server_close_code", f"{closes} != {a['server_code']}", backend=be)


def run_case(case: Dict[str, Any]) -> CaseInfo:
    cfg = {"keep_alive_timeout": T_BIG, "keep_alive_max_requests": case.get("kamax", 1000),
           "h11_pass_raw_headers": bool(case.get("raw_headers"))}
    if case.get("other_name"):
        cfg["server_names"] = ["other.example"]
    programs = {"*": app_program(case),
                "/prior": [["recv_all"], ["respond", 200, [["content-length", "2"]], ["ok"]]]}

    async def sc(env: Any) -> Any:
        return await scenario(env, case)

    for be in BACKENDS:
        obs = run_sim(be, cfg, programs, sc, sched=case.get("sched", 0))
        judge(case, obs)
    hs = case["handshake"]
    valid = is_valid(case["carrier"], hs)
    a = case["app"]
    classes = ["carrier=" + case["carrier"], "valid=%s" % valid, "decision=" + a["decision"]]
    if case.get("other_name"):
        classes.append("host_not_in_server_names")
    if hs.get("adjusted"):
        classes.append("adjusted:" + hs["adjusted"])
    if valid and a["decision"] == "accept":
        classes.append("closing=" + a["closing"])
        if "subprotocol" in a:
            classes.append("subprotocol_chosen")
    canonical = valid and hs.get("upgrade", "websocket") == "websocket" and \
        hs.get("connection", "Upgrade") == "Upgrade"
    return CaseInfo(not canonical or a["decision"] != "accept" or
                    a.get("closing") != "client_first", classes, evals=2)


def parts() -> List[Part]:
    return [
        Part("h1", run_case, strategy=lambda: case_strategy("h1"), quick=1600, thorough=60000,
             rule="HTTP/1.1 upgrade handshakes"),
        Part("h2", run_case, strategy=lambda: case_strategy("h2"), quick=800, thorough=40000,
             rule="HTTP/2 extended CONNECT handshakes"),
    ]
