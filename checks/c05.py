"""C05 - application failures are contained and never yield a falsely complete response."""
from __future__ import annotations

from typing import Any, Dict, List, Optional

from hypothesis import strategies as st

from gen.http import make_body
from gen.wsdrive import WSSession
from sim.run import BACKENDS, run_sim
from vlib.core import CaseInfo, Part, Violation
from wire.h1 import b2s, parse_responses
from wire.h2c import FrameAccounting, H2Client
from wire.ws import assemble_messages, parse_server_frames

PROPERTY = "C05"
LEVEL = "fault_enumeration"
RULE = (
    "generated application programs (read steps, response start with/without content-length, "
    "body chunks, final message, optional tail) with the crash point ENUMERATED over every op "
    "index x {raise, return, cancel} x {HTTP/1.1 keep-alive with a pipelined follower, HTTP/1.0 "
    "with a length, concurrent HTTP/2 streams, WebSocket handshake and session on both "
    "carriers}, both workers; oracle = independent client parse: 500 if nothing was started, "
    "otherwise truncated + closed (HTTP/1) / RST_STREAM and no END_STREAM (HTTP/2), intact "
    "after completion; failure logged; sibling streams and a later connection served; "
    "non-trivial = crash point strictly inside the program"
)
ASSUMPTIONS = [
    "HTTP/1.0 responses without a length are outside the domain (incompleteness is invisible)",
    "a crash after all declared content-length bytes were delivered may look complete",
]
T_BIG = 100000.0
# "bad_message": the failure is the error the server raises into one of the application's own
# sends (an invalid message for the state), which the application does not handle
HOW = ["raise", "return", "cancel", "raise_group", "bad_message"]


@st.composite
def case_strategy(draw: Any, ctx: str) -> Dict[str, Any]:
    nchunks = draw(st.integers(0, 3))
    chunks = [draw(st.sampled_from([1, 10, 300, 20000])) for _ in range(nchunks)]
    return {
        "ctx": ctx, "sched": draw(st.integers(0, 999)),
        "req_body": draw(st.sampled_from([0, 0, 5, 3000])),
        "reads_first": draw(st.booleans()),
        "declare_cl": draw(st.booleans()) or ctx == "h1.0",
        "chunks": chunks,
        "delay": draw(st.sampled_from([0, 0, 0.5])),
        "how": draw(st.sampled_from(HOW)),
        "ws_msgs": draw(st.integers(0, 2)),
    }


def base_program(case: Dict[str, Any]) -> List[list]:
    """The complete, valid program; the crash replaces everything from index k on."""
    if case["ctx"].startswith("ws"):
        prog: List[list] = [["recv"], ["send", {"type": "websocket.accept"}]]
        for i in range(case["ws_msgs"]):
            prog.append(["send", {"type": "websocket.send", "text": f"m{i}"}])
        prog.append(["recv"])  # waits for a client message
        prog.append(["send", {"type": "websocket.send", "text": "after"}])
        prog.append(["send", {"type": "websocket.close", "code": 1000}])
        return prog
    body = b"".join(make_body(n, i) for i, n in enumerate(case["chunks"]))
    headers = [["x-app", "1"]]
    if case["declare_cl"]:
        headers.append(["content-length", str(len(body))])
    prog = []
    if case["reads_first"]:
        prog.append(["recv_all"])
    if case["delay"]:
        prog.append(["sleep", case["delay"]])
    prog.append(["send", {"type": "http.response.start", "status": 200, "headers": headers}])
    for i, n in enumerate(case["chunks"]):
        prog.append(["send", {"type": "http.response.body", "body": b2s(make_body(n, i)),
                              "more_body": True}])
    prog.append(["send", {"type": "http.response.body", "body": "", "more_body": False}])
    prog.append(["sleep", 0.1])  # a tail after completion
    return prog


def crashed_program(case: Dict[str, Any], k: int) -> List[list]:
    prog = base_program(case)[:k]
    how = case["how"]
    if how == "raise":
        prog.append(["raise", "ValueError"])
    elif how == "raise_group":
        prog.append(["raise_group"])
    elif how == "cancel":
        prog.append(["cancel_self"])
    elif how == "bad_message":
        if case["ctx"].startswith("ws"):
            prog.append(["send", {"type": "websocket.bogus"}])
        elif phase(case, k) == "before_start":
            prog.append(["send", {"type": "http.response.start", "status": 200,
                                  "headers": [["x-bad", "line\nbreak"]]}])
        else:
            prog.append(["send", {"type": "http.response.start", "status": 200, "headers": []}])
        prog.append(["raise", "RuntimeError"])  # not reached: the send above raises
    else:
        prog.append(["return"])
    return prog


def phase(case: Dict[str, Any], k: int) -> str:
    """before_start | started | complete  (for the HTTP contexts)"""
    prog = base_program(case)[:k]
    types = [op[1].get("type") for op in prog if op[0] == "send"]
    if "http.response.start" not in types:
        return "before_start"
    finals = [op for op in prog if op[0] == "send" and op[1].get("type") == "http.response.body"
              and not op[1].get("more_body")]
    return "complete" if finals else "started"


WITNESS = [["recv_all"], ["sleep", 1.0], ["respond", 200, [["content-length", "7"]], ["witness"]]]


def request_bytes(path: str, body: bytes, version: str = "1.1") -> bytes:
    lines = [f"{'POST' if body else 'GET'} {path} HTTP/{version}", "Host: example.com"]
    if body:
        lines.append(f"Content-Length: {len(body)}")
    return ("\r\n".join(lines) + "\r\n\r\n").encode() + body


async def later_connection(env: Any) -> Any:
    c = env.connect()
    c.send(b"GET /witness HTTP/1.1\r\nHost: example.com\r\nConnection: close\r\n\r\n")
    await env.settle(30.0)
    return c


async def scenario(env: Any, case: Dict[str, Any]) -> Dict[str, Any]:
    ctx = case["ctx"]
    body = make_body(case["req_body"], 7)
    out: Dict[str, Any] = {}
    if ctx in ("h1", "h1.0"):
        conn = env.connect()
        data = request_bytes("/crash", body, "1.0" if ctx == "h1.0" else "1.1")
        if ctx == "h1":
            data += request_bytes("/witness", b"")  # pipelined follower
        conn.send(data)
        await env.settle(60.0)
        out["conn"] = conn
    elif ctx == "h2":
        conn = env.connect(alpn="h2", tls=True)
        client = H2Client(conn)
        client.start()
        await env.settle0()
        client.pump()
        sid_w = client.request([(b":method", b"GET"), (b":scheme", b"https"),
                                (b":authority", b"x"), (b":path", b"/witness")], end_stream=True)
        sid_c = client.request([(b":method", b"POST" if body else b"GET"), (b":scheme", b"https"),
                                (b":authority", b"x"), (b":path", b"/crash")],
                               end_stream=not body)
        if body:
            client.upload(sid_c, body, [], end_stream=True)
        for _ in range(50):
            await env.settle(5.0)
            if not client.pump():
                break
        sid_l = None
        if client.goaway is None and not conn.server_gone:
            sid_l = client.request([(b":method", b"GET"), (b":scheme", b"https"),
                                    (b":authority", b"x"), (b":path", b"/witness")],
                                   end_stream=True)
            for _ in range(50):
                await env.settle(5.0)
                if not client.pump():
                    break
        out.update({"conn": conn, "client": client, "sid_c": sid_c, "sid_w": sid_w,
                    "sid_l": sid_l})
    else:
        ws = WSSession(env, "h1" if ctx == "ws1" else "h2", direct=True)
        status = await ws.open(path="/crash")
        await env.settle(10.0)
        await ws.pump()
        if status in (101, 200):
            from wire.ws import message_frames

            await ws.send(b"".join(message_frames("text", b"go", [])))
            await env.settle(30.0)
            await ws.pump()
        out.update({"conn": ws.conn, "ws": ws, "status": status})
    out["later"] = await later_connection(env)
    await env.settle(30.0)
    return out


def judge(case: Dict[str, Any], k: int, obs: Any) -> None:
    be = obs.backend
    ctx = case["ctx"]
    tag = {"backend": be, "ctx": ctx, "how": case["how"]}
    if obs.spin:
        raise Violation("spin", obs.spin, **tag)
    val = obs.value
    conn = val["conn"]
    for c in (conn, val["later"]):
        if c.handler_exc is not None:
            raise Violation("handler_exception", repr(c.handler_exc), **tag)
    # the server itself keeps working: a later connection is served
    later = val["later"]
    resps, _, err = parse_responses(later.received(), ["GET"], later.server_gone)
    if err or len(resps) != 1 or not resps[0].complete or resps[0].body != b"witness":
        raise Violation("later_connection_not_served", f"{[r.to_json() for r in resps]} {err}",
                        **tag)
    crash = [i for i in obs.instances if i.scope.get("path") == "/crash"]
    if len(crash) != 1:
        raise Violation("instance_count", f"{len(crash)} /crash instances", **tag)
    errlogs = [e for e in obs.log.events if e["kind"] == "errlog" and e["level"] == "exception"]
    nprog = len(base_program(case))
    crashed_inside = k < nprog
    if case["how"] in ("raise", "raise_group", "bad_message") and len(errlogs) != 1:
        raise Violation("failure_not_logged", f"{len(errlogs)} error records for a raising "
                        f"application", **tag)
    if ctx.startswith("ws"):
        return judge_ws(case, k, val, tag)
    ph = phase(case, k)
    body = b"".join(make_body(n, i) for i, n in enumerate(case["chunks"]))
    sent_chunks = [op for op in base_program(case)[:k] if op[0] == "send"
                   and op[1].get("type") == "http.response.body"]
    sent_bytes = sum(len(op[1]["body"]) for op in sent_chunks)
    all_declared_sent = case["declare_cl"] and sent_bytes == len(body) and ph != "before_start"
    if ctx in ("h1", "h1.0"):
        methods = ["GET", "GET"]
        resps, leftover, err = parse_responses(conn.received(), methods, conn.server_gone)
        if err:
            raise Violation("malformed_response", err, **tag)
        if not resps:
            raise Violation("no_response", f"phase {ph}: nothing on the wire", **tag)
        r = resps[0]
        if ph == "before_start":
            if r.status != 500 or not r.complete:
                raise Violation("no_500", f"application failed before starting a response; "
                                f"client got {r.to_json()}", **tag, phase=ph)
        elif ph == "started":
            if r.status != 200:
                raise Violation("status_changed", f"{r.to_json()}", **tag, phase=ph)
            if r.complete and not all_declared_sent:
                raise Violation("falsely_complete", f"application stopped after {sent_bytes} of "
                                f"{len(body)} body bytes but the response parses as complete: "
                                f"{r.to_json()}", **tag, phase=ph)
            if not conn.server_gone:
                raise Violation("not_terminated", "incomplete response but the connection is "
                                "still open", **tag, phase=ph)
            if not body.startswith(r.body):
                raise Violation("body_corrupt", f"{len(r.body)} bytes not a prefix", **tag)
        else:
            if r.status != 200 or not r.complete or r.body != body:
                raise Violation("completed_response_damaged", f"{r.to_json()}", **tag, phase=ph)
        if ctx == "h1" and ph == "complete":
            # a completed response keeps the connection usable: the pipelined follower is served
            if len(resps) < 2 or not resps[1].complete or resps[1].body != b"witness":
                raise Violation("follower_not_served", f"{[x.to_json() for x in resps]}", **tag,
                                phase=ph)
        return
    # ---- HTTP/2
    client = val["client"]
    if client.error:
        raise Violation("client_protocol_error", client.error, **tag)
    acct = FrameAccounting().decode(conn.received())
    if acct.error:
        raise Violation("malformed_frames", acct.error, **tag)
    if acct.goaway is not None and acct.goaway[1] != 0:
        raise Violation("connection_error", f"GOAWAY {acct.goaway}", **tag)
    for name in ("sid_w", "sid_l"):
        sid = val[name]
        s = acct.streams.get(sid) if sid else None
        if sid is None or s is None or bytes(s.data) != b"witness" or s.end_stream != 1:
            raise Violation("sibling_not_served", f"{name}={sid}: "
                            f"{s and (bytes(s.data), s.end_stream, s.rst)}", **tag)
    s = acct.streams.get(val["sid_c"])
    if s is None or not s.header_blocks:
        raise Violation("no_response", f"phase {ph}: nothing on stream {val['sid_c']}", **tag,
                        phase=ph)
    status = int(dict(s.header_blocks[0]).get(b":status", b"0"))
    if ph == "before_start":
        if status != 500 or s.end_stream != 1:
            raise Violation("no_500", f"status {status} end_stream {s.end_stream} rst {s.rst}",
                            **tag, phase=ph)
    elif ph == "started":
        if s.end_stream and not all_declared_sent:
            raise Violation("falsely_complete", f"application stopped after {sent_bytes} of "
                            f"{len(body)} body bytes but END_STREAM was sent", **tag, phase=ph)
        if s.rst is None and not s.end_stream:
            raise Violation("stream_not_reset", f"application stopped mid-response; stream "
                            f"{val['sid_c']} got {len(s.data)} bytes, no RST_STREAM, no END_STREAM",
                            **tag, phase=ph)
        if not body.startswith(bytes(s.data)):
            raise Violation("body_corrupt", "", **tag)
    else:
        if status != 200 or s.end_stream != 1 or bytes(s.data) != body or s.rst is not None:
            raise Violation("completed_response_damaged", f"{status} {s.end_stream} "
                            f"{len(s.data)}/{len(body)} rst={s.rst}", **tag, phase=ph)


def judge_ws(case: Dict[str, Any], k: int, val: Dict[str, Any], tag: Dict[str, Any]) -> None:
    ws: WSSession = val["ws"]
    prog = base_program(case)[:k]
    accepted = any(op[0] == "send" and op[1].get("type") == "websocket.accept" for op in prog)
    closed_ok = any(op[0] == "send" and op[1].get("type") == "websocket.close" for op in prog)
    status = val["status"]
    if not accepted:
        if status != 500:
            raise Violation("no_500", f"application failed during the handshake; client got "
                            f"{status}", **tag, phase="handshake")
        return
    if status not in (101, 200):
        raise Violation("handshake_failed", f"{status}", **tag)
    frames, _, err = parse_server_frames(ws.server_bytes())
    events, aerr = assemble_messages(frames) if not err else ([], err)
    if err or aerr:
        raise Violation("malformed_frames", f"{err or aerr}", **tag)
    closes = [e for e in events if e["kind"] == "close"]
    texts = [e["data"] for e in events if e["kind"] == "text"]
    want_texts = [op[1]["text"] for op in prog if op[0] == "send"
                  and op[1].get("type") == "websocket.send"]
    if texts != want_texts:
        raise Violation("ws_messages", f"{texts} != {want_texts}", **tag)
    if closed_ok:
        if not closes or closes[0]["code"] != 1000:
            raise Violation("completed_session_damaged", f"{closes}", **tag)
        return
    # failed inside an open session: the client must be told promptly (close frame / closed)
    st_ = ws.stream_state()
    if not closes and not st_["ended"] and st_["reset"] is None and not ws.conn.server_gone:
        raise Violation("ws_not_terminated", "application failed in an open WebSocket session; "
                        "no close frame, stream/connection left open", **tag, phase="session")
    if closes and closes[0]["code"] == 1000:
        raise Violation("ws_failure_reported_as_normal", f"{closes}", **tag, phase="session")


def run_case(case: Dict[str, Any]) -> CaseInfo:
    cfg = {"keep_alive_timeout": T_BIG}
    nprog = len(base_program(case))
    points = list(range(nprog + 1))
    if "only_k" in case:
        points = [case["only_k"]]
    evals = 0
    for k in points:
        programs = {"/crash": crashed_program(case, k), "/witness": WITNESS}
        for be in BACKENDS:
            if case["how"] == "cancel" and be == "trio":
                continue

            async def sc(env: Any) -> Any:
                return await scenario(env, case)

            obs = run_sim(be, cfg, programs, sc, sched=case.get("sched", 0))
            try:
                judge(case, k, obs)
            except Violation as v:
                v.detail = f"crash point {k}/{nprog} ({case['how']}): " + v.detail
                v.tags["k"] = "first" if k == 0 else ("last" if k == nprog else "inside")
                raise Violation(v.kind, v.detail, **v.tags)
            evals += 1
    classes = ["ctx=" + case["ctx"], "how=" + case["how"], f"points={len(points)}"]
    return CaseInfo(nprog >= 2, classes, evals=evals)


def parts() -> List[Part]:
    ps = []
    for ctx, q in (("h1", 120), ("h1.0", 50), ("h2", 120), ("ws1", 60), ("ws2", 60)):
        ps.append(Part(ctx, run_case, strategy=(lambda c=ctx: case_strategy(c)), quick=q,
                       thorough=q * 40,
                       rule=f"{ctx}: programs with every crash index enumerated"))
    return ps
